"""Translator: the human-readable-difference code  ->  lean/Pendulum/Gen/DiffFmt.lean

Sources and what becomes of them (each a Lean definition in `Pendulum.Gen.DiffFmt`):
  formatting/difference_formatter.py  `DifferenceFormatter.format`:
        `select_unit`   the `if/elif` cascade years -> months -> weeks -> days -> hours -> minutes -> seconds (tests, their
                        order, the promotion thresholds); `none` = the final `else`
        `few_seconds`   the final `else` arm (the "a few seconds" branch, falling through to unit "second")
        `render`        everything after the cascade (`count == 0`, key construction, which template is fetched, the
                        `.format` chain)
        `format`        the three put together + the locale resolution of the first statement; `init_locale` (`__init__`)
  helpers.py   `format_diff`, `locale`                                  -> `format_diff`, `helpers_locale`
  duration.py / interval.py   `in_words`                                -> `duration_in_words`, `interval_in_words`
  datetime.py / date.py / time.py   `diff_for_humans` (+ the `abs` default of the class's `diff`, `Date.diff`/`DateTime.diff`
        as the request handed to `Interval`)                            -> `<cls>_diff_for_humans`, `<cls>_diff`
  locales/locale.py   `normalize_locale` (regex compiled by the translator, class membership under re.I computed with
        Python's own `re`), `load` (cache key and module directory), `get` (walk + `except KeyError`), `translation`,
        `plural`, `ordinal`, `ordinalize`; `match_translation` is pinned verbatim.
Not translated (parameters of the generated definitions): Python built-ins on objects (`PyOps`: `is None`, truthiness,
`str.format`, subscripting, `str.join`, f-string conversion, the float `:.2f` rendering, exception class test), the loaded
locale object (`LocaleOps`: `get`, `plural`, `ordinal`), `Locale.load` as `load : String -> LocaleOps`, the process-wide
`pendulum._LOCALE` (`get_locale`), `now()/today()`, the class's own `diff`.
Dotted keys: a key is kept as the list of its dot-separated components. Literal text is split at "." by the translator;
a substituted value (`{unit}`, `{locale.plural(count)}`) is ONE component, which is exact when it contains no "." — the
unit names are literals of the function (checked here), the plural classes are data of the generated locale tree.
Statements: assignment, augmented assignment, `if/elif/else` (merged into a `let` when the arms only assign, a join
point `k_n` otherwise), `return`, `for` over a literal list (`pyFor`), `try/except <Class>`, `while` (fuel), `raise`.
Anything else is a fallback (prefix "DiffFmt:").
"""
from __future__ import annotations

import ast
import os
import re
from pathlib import Path

REPO = Path(os.environ.get("VERIF_REPO", "/repo"))
DIFF_ATTRS = ["years", "months", "weeks", "remaining_days", "hours", "minutes", "remaining_seconds"]
WORD_ATTRS = DIFF_ATTRS + ["microseconds"]


class Bad(Exception):
    pass


def L(v):
    return f"({v} : Int)"


def q(s: str) -> str:
    out = []
    for ch in s:
        if ch == "\\":
            out.append("\\\\")
        elif ch == '"':
            out.append('\\"')
        elif ch == "\n":
            out.append("\\n")
        elif ch == "\t":
            out.append("\\t")
        elif ord(ch) < 32 or ord(ch) == 127:
            out.append("\\x%02x" % ord(ch))
        else:
            out.append(ch)
    return '"' + "".join(out) + '"'


# ----------------------------------------------------------------------------- symbolic values

class I:                      # Int term
    kind = "Int"

    def __init__(self, e):
        self.e = e


class Bv:                     # Bool term
    kind = "Bool"

    def __init__(self, e):
        self.e = e


class V:                      # a Python object (Lean type V)
    kind = "V"

    def __init__(self, e):
        self.e = e


class EV:                     # a call that may raise: term of type Except ε V
    def __init__(self, e):
        self.e = e


class LV:                     # list of Python objects (List V)
    kind = "List V"

    def __init__(self, e):
        self.e = e


class Loc:                    # a loaded locale (LocaleOps ε V)
    kind = "LocaleOps ε V"

    def __init__(self, e):
        self.e = e


class N:                      # a locale *name* (Lean type String)
    kind = "Name"

    def __init__(self, e):
        self.e = e


class ON:                     # Optional[str] parameter: `<name>_none : Bool`, `<name> : String`
    def __init__(self, name):
        self.name = name


class OO:                     # Optional object parameter: `<name>_none : Bool`, `<name> : O`
    def __init__(self, name):
        self.name = name


class O:                      # an object of the receiver's class (Lean type O)
    kind = "O"

    def __init__(self, e):
        self.e = e


class DA:                     # a Duration/Interval as the attributes `format` reads (DiffAttrs)
    kind = "DiffAttrs"

    def __init__(self, e):
        self.e = e


class NoneV:
    pass


class Pairs:                  # list of (String, Int) tuples bound to a Lean name
    kind = "List (String × Int)"

    def __init__(self, e):
        self.e = e


class Pair:                   # one (String, Int) tuple
    def __init__(self, e):
        self.e = e


class Marker:
    def __init__(self, what):
        self.what = what


class DS:
    """a dotted string: items are ('c', [pieces]) — one component, the concatenation of Lean String terms — or
    ('s', term) — an opaque list of components spliced in"""
    def __init__(self, items):
        self.items = items

    @staticmethod
    def of_tokens(tokens):
        """tokens: ('lit', text) | ('val', DS)"""
        cur = DS([("c", [])])
        for kind, x in tokens:
            if kind == "lit":
                parts = x.split(".")
                for i, p in enumerate(parts):
                    if i > 0:
                        cur = DS(cur.items + [("c", [])])
                    if p:
                        last = cur.items[-1]
                        if last[0] != "c":
                            raise Bad("text directly after a spliced key (no '.' in between)")
                        cur = DS(cur.items[:-1] + [("c", last[1] + [q(p)])])
            else:
                cur = cur.concat(x)
        return cur

    def concat(self, b):
        a = self
        if not b.items:
            return a
        x, y = a.items[-1], b.items[0]
        if x[0] == "c" and y[0] == "c":
            return DS(a.items[:-1] + [("c", x[1] + y[1])] + b.items[1:])
        if x[0] == "c" and y[0] == "s":
            if x[1]:
                raise Bad("a key spliced directly after text (no '.' in between)")
            return DS(a.items[:-1] + list(b.items))
        if x[0] == "s" and y[0] == "c":
            if y[1]:
                raise Bad("text appended to a computed key does not start a new component (no leading '.')")
            return DS(a.items + b.items[1:]) if len(b.items) > 1 else a
        raise Bad("two computed keys concatenated without '.'")

    def comp_terms(self):
        out = []
        for k, x in self.items:
            if k == "c":
                out.append(("c", " ++ ".join(x) if len(x) > 1 else (x[0] if x else '""')))
            else:
                out.append(("s", x))
        return out

    def single(self):
        return len(self.items) == 1 and self.items[0][0] == "c"

    def as_string(self):
        if not self.single():
            raise Bad("a dotted key used where a single component is needed")
        t = self.comp_terms()[0][1]
        return f"({t})" if " ++ " in t else t

    def as_list(self):
        groups, cur = [], []
        for k, t in self.comp_terms():
            if k == "c":
                cur.append(t)
            else:
                if cur:
                    groups.append("[" + ", ".join(cur) + "]")
                    cur = []
                groups.append(t)
        if cur:
            groups.append("[" + ", ".join(cur) + "]")
        return "(" + " ++ ".join(groups) + ")" if len(groups) > 1 else groups[0]

    def literal(self):
        if self.single() and len(self.items[0][1]) == 1 and self.items[0][1][0].startswith('"'):
            return self.items[0][1][0]
        return None


def lean_ty(kind):
    return "String" if kind == "Name" else kind


def kind_of(v):
    if isinstance(v, DS):
        return "String" if v.single() else "List String"
    if isinstance(v, (ON, OO, NoneV, Marker, EV, Pair)):
        return None
    return v.kind


def unify(kinds):
    ks = set(kinds)
    if None in ks:
        raise Bad("a value that cannot be carried across a branch")
    if len(ks) == 1:
        return ks.pop()
    if ks == {"String", "List String"}:
        return "List String"
    if ks == {"Int", "V"}:
        return "V"
    raise Bad(f"a variable has different kinds on different paths: {sorted(ks)}")


# ----------------------------------------------------------------------------- continuations

class Yield:
    """end of a merged branch: the values of `names` as a tuple (pure) or `.ok tuple` (monadic)"""
    def __init__(self, names, monadic):
        self.names, self.monadic, self.needs = names, monadic, set(names)
        self.seen, self.types, self.wrap = [], None, ""

    def call(self, tr, env):
        vals = [tr.coerce_opt(env[n], n) for n in self.names]
        if self.types is None:
            self.seen.append([kind_of(v) for v in vals])
            return "⟦dry⟧"
        terms = [tr.as_kind(v, t) for v, t in zip(vals, self.types)]
        tup = terms[0] if len(terms) == 1 else "(" + ", ".join(terms) + ")"
        if not terms:
            tup = "()"
        return f"Except.ok {tup}" if self.monadic else self.wrap + tup


class Join:
    """a named join point `k_n` (a local function over the variables assigned in the branches)"""
    def __init__(self, kname, names, needs):
        self.k, self.names, self.needs = kname, names, needs
        self.seen, self.types = [], None

    def call(self, tr, env):
        vals = [tr.coerce_opt(env[n], n) for n in self.names]
        if self.types is None:
            self.seen.append([kind_of(v) for v in vals])
            return "⟦dry⟧"
        terms = [tr.as_kind(v, t) for v, t in zip(vals, self.types)]
        return f"{self.k} " + (" ".join(terms) if terms else "()")


class External(Join):
    """a continuation that is a parameter of the generated definition (`k unit count`)"""
    def __init__(self, kname, names, types):
        super().__init__(kname, names, set(names))
        self.types = types


def loads(stmts):
    """names read before a top-level unconditional assignment overwrites them"""
    out, killed = set(), set()
    for s in stmts:
        for n in ast.walk(s):
            if isinstance(n, ast.Name) and isinstance(n.ctx, ast.Load) and n.id not in killed:
                out.add(n.id)
            if isinstance(n, ast.AugAssign) and isinstance(n.target, ast.Name) and n.target.id not in killed:
                out.add(n.target.id)
        if isinstance(s, (ast.Assign, ast.AnnAssign)) and getattr(s, "value", None) is not None:
            for t in (s.targets if isinstance(s, ast.Assign) else [s.target]):
                if isinstance(t, ast.Name):
                    killed.add(t.id)
    return out


def needs_after(rest, cont):
    """names whose value matters after a statement followed by `rest` and then the continuation"""
    out = loads(rest)
    if cont is None or any(isinstance(s, (ast.Return, ast.Raise)) for s in rest):
        return out
    killed = set()
    for s in rest:
        if isinstance(s, (ast.Assign, ast.AnnAssign)) and getattr(s, "value", None) is not None:
            for t in (s.targets if isinstance(s, ast.Assign) else [s.target]):
                if isinstance(t, ast.Name):
                    killed.add(t.id)
    return out | (set(cont.needs) - killed)


def stores(stmts):
    out = []
    for s in stmts:
        for n in ast.walk(s):
            tg = []
            if isinstance(n, ast.Assign):
                tg = n.targets
            elif isinstance(n, (ast.AugAssign, ast.AnnAssign)):
                tg = [n.target]
            elif isinstance(n, ast.For):
                tg = [n.target]
            elif isinstance(n, ast.Expr) and isinstance(n.value, ast.Call) and isinstance(n.value.func, ast.Attribute) \
                    and n.value.func.attr == "append" and isinstance(n.value.func.value, ast.Name):
                tg = [n.value.func.value]
            for t in tg:
                for m in ast.walk(t):
                    if isinstance(m, ast.Name) and m.id not in out:
                        out.append(m.id)
    return out


def has_exit(stmts):
    return any(isinstance(n, (ast.Return, ast.Raise)) for s in stmts for n in ast.walk(s))


# ----------------------------------------------------------------------------- translator

def res_ty(mode):
    if mode == "EV":
        return "Except ε V"
    if mode.startswith("M|"):
        return mode[2:]
    raise Bad("a branch that needs a join point inside a try body")


def paren(body):
    return "(" + body + ")"


class Tr:
    def __init__(self, ctx, py="py"):
        self.ctx, self.py = ctx, py
        self.n, self.binds, self.pre = 0, 0, []

    # --- plumbing
    def fresh(self, base):
        self.n += 1
        return f"{base}_{self.n}"

    def flush(self):
        s = "".join(self.pre)
        self.pre = []
        return s

    def bind(self, ev, hint="t"):
        if not isinstance(ev, EV):
            return ev
        nm = self.fresh(hint)
        self.binds += 1
        self.pre.append(f"{ev.e} >>=ₑ fun {nm} =>\n")
        return V(nm)

    def need(self, name):
        if name not in self.ctx["done"]:
            raise Bad(f"depends on `{name}`, which could not be translated")

    def coerce_opt(self, v, name):
        if isinstance(v, OO):
            return O(v.name)          # the value of an Optional parameter, meaningful when `<name>_none` is false
        if isinstance(v, ON):
            raise Bad(f"`{name}` may still be None where a value is needed")
        return v

    def as_kind(self, v, kind):
        if isinstance(v, DS):
            if kind == "String":
                return v.as_string()
            if kind == "List String":
                return v.as_list()
            raise Bad("a string where " + kind + " is expected")
        if isinstance(v, I) and kind == "V":
            return f"({self.py}.ofInt {v.e})"
        if kind_of(v) != kind:
            raise Bad(f"a value of kind {kind_of(v)} where {kind} is expected")
        return v.e

    def from_kind(self, kind, term):
        if kind == "String":
            return DS([("c", [term])])
        if kind == "List String":
            return DS([("s", term)])
        return {"Int": I, "Bool": Bv, "V": V, "List V": LV, "LocaleOps ε V": Loc, "O": O, "DiffAttrs": DA,
                "List (String × Int)": Pairs, "Name": N}[kind](term)

    def as_bool(self, v, what):
        if isinstance(v, Bv):
            return v.e
        if isinstance(v, I):
            return f"(decide ({v.e} ≠ (0 : Int)))"
        if isinstance(v, EV):
            v = self.bind(v)
        if isinstance(v, V):
            return f"({self.py}.truthy {v.e})"
        if isinstance(v, LV):
            return f"(!({v.e}).isEmpty)"
        if isinstance(v, Marker) and v.what == "match":
            return "(m).isSome"
        raise Bad(f"{what}: not a truth value")

    def as_v(self, v, what):
        if isinstance(v, EV):
            v = self.bind(v)
        if isinstance(v, V):
            return v.e
        if isinstance(v, I):
            return f"({self.py}.ofInt {v.e})"
        raise Bad(f"{what}: not a Python object the subset can pass on ({type(v).__name__})")

    def as_int(self, v, what):
        if isinstance(v, I):
            return v.e
        raise Bad(f"{what}: not an integer expression")

    def as_name(self, v, what):
        if isinstance(v, N):
            return v.e
        if isinstance(v, DS) and v.literal() is not None:
            return v.literal()
        if isinstance(v, ON):
            raise Bad(f"{what}: `{v.name}` may be None here")
        raise Bad(f"{what}: not a locale name")

    def as_key(self, v, what):
        if isinstance(v, DS):
            return v.as_list()
        raise Bad(f"{what}: the key is not a string built from literals and substitutions")

    # --- conditions (with `is None` narrowing)
    def cond(self, test, env):
        neg = False
        t = test
        if isinstance(t, ast.UnaryOp) and isinstance(t.op, ast.Not):
            pass
        if (isinstance(t, ast.Compare) and len(t.ops) == 1 and isinstance(t.ops[0], (ast.Is, ast.IsNot))
                and isinstance(t.comparators[0], ast.Constant) and t.comparators[0].value is None
                and isinstance(t.left, ast.Name) and isinstance(env.get(t.left.id), ON)):
            o = env[t.left.id]
            neg = isinstance(t.ops[0], ast.IsNot)
            yes, no = dict(env), dict(env)
            yes[t.left.id] = NoneV()
            no[t.left.id] = N(o.name)
            c = f"{o.name}_none"
            if neg:
                return f"(!{c})", no, yes
            return c, yes, no
        return self.as_bool(self.expr(test, env), "condition"), env, env

    # --- expressions
    def fstring_tokens(self, x, env):
        toks, plain = [], True
        for p in x.values:
            if isinstance(p, ast.Constant) and isinstance(p.value, str):
                toks.append(("lit", p.value))
            elif isinstance(p, ast.FormattedValue):
                v = self.expr(p.value, env) if p.format_spec is None and p.conversion == -1 else None
                if isinstance(v, DS):
                    toks.append(("val", v))
                else:
                    plain = False
                    toks.append(("obj", (p, v)))
            else:
                raise Bad("f-string part outside the subset")
        return toks, plain

    def expr(self, x, env):
        py = self.py
        if isinstance(x, ast.Constant):
            if x.value is None:
                return NoneV()
            if isinstance(x.value, bool):
                return Bv("true" if x.value else "false")
            if isinstance(x.value, int):
                return I(L(x.value))
            if isinstance(x.value, str):
                return DS.of_tokens([("lit", x.value)])
            raise Bad("constant " + repr(x.value))
        if isinstance(x, ast.JoinedStr):
            toks, plain = self.fstring_tokens(x, env)
            if plain:
                return DS.of_tokens(toks)
            if len(toks) == 1:
                p, v = toks[0][1]
                spec = ast.unparse(p.format_spec) if p.format_spec is not None else None
                if spec == "f'.2f'" and isinstance(p.value, ast.BinOp) and isinstance(p.value.op, ast.Div) \
                        and isinstance(p.value.right, ast.Constant) and isinstance(p.value.right.value, float) \
                        and p.value.right.value == int(p.value.right.value) and p.value.right.value > 0:
                    num = self.as_int(self.expr(p.value.left, env), ":.2f numerator")
                    return V(f"({py}.float2f {num} {L(int(p.value.right.value))})")
            parts = []
            for k, t in toks:
                if k != "obj" or t[0].format_spec is not None or t[0].conversion != -1:
                    raise Bad("f-string mixing literal text or format specs with objects: " + ast.unparse(x)[:80])
                parts.append(self.as_v(t[1], "f-string"))
            return EV(f"{py}.fstring [" + ", ".join(parts) + "]")
        if isinstance(x, ast.Name):
            if x.id in env:
                return env[x.id]
            if x.id in ("pendulum", "Locale", "re", "t", "difference_formatter"):
                return Marker(x.id)
            raise Bad("unknown name " + x.id)
        if isinstance(x, ast.Attribute):
            v = self.expr(x.value, env)
            if isinstance(v, DA):
                if x.attr in DIFF_ATTRS:
                    return I(f"{v.e}.{x.attr}")
                if x.attr == "invert":
                    return Bv(f"{v.e}.invert")
                raise Bad(f"attribute `{x.attr}` of the difference is not one of the eight the model carries")
            if isinstance(v, Marker) and v.what == "words_self":
                if x.attr in WORD_ATTRS:
                    return I(x.attr)
                raise Bad(f"self.{x.attr} is outside the attributes in_words reads")
            if isinstance(v, Marker) and v.what == "df_self" and x.attr == "_locale":
                return Loc("self_locale")
            if isinstance(v, Marker) and v.what == "locale_self" and x.attr == "_data":
                return V("data")
            raise Bad("attribute outside the subset: " + ast.unparse(x))
        if isinstance(x, ast.UnaryOp) and isinstance(x.op, ast.USub):
            return I(f"(-{self.as_int(self.expr(x.operand, env), 'unary minus')})")
        if isinstance(x, ast.UnaryOp) and isinstance(x.op, ast.Not):
            return Bv(f"(!{self.as_bool(self.expr(x.operand, env), 'not')})")
        if isinstance(x, ast.BinOp) and type(x.op) in (ast.Add, ast.Sub, ast.Mult):
            a, b = self.expr(x.left, env), self.expr(x.right, env)
            if isinstance(a, I) and isinstance(b, I):
                o = {ast.Add: "+", ast.Sub: "-", ast.Mult: "*"}[type(x.op)]
                return I(f"({a.e} {o} {b.e})")
            if isinstance(a, DS) and isinstance(b, DS) and isinstance(x.op, ast.Add):
                return a.concat(b)
            raise Bad("arithmetic outside the subset: " + ast.unparse(x)[:80])
        if isinstance(x, ast.BoolOp):
            vs = [self.expr(v, env) for v in x.values]
            if isinstance(x.op, ast.Or) and len(vs) == 2 and isinstance(vs[0], ON) and isinstance(vs[1], N):
                o = vs[0].name
                return N(f'(if ({o}_none || {o} == "") then {vs[1].e} else {o})')
            op = " && " if isinstance(x.op, ast.And) else " || "
            return Bv("(" + op.join(self.as_bool(v, "and/or") for v in vs) + ")")
        if isinstance(x, ast.Compare):
            if len(x.ops) == 1 and isinstance(x.ops[0], (ast.Is, ast.IsNot)) and isinstance(x.comparators[0], ast.Constant) \
                    and x.comparators[0].value is None:
                v = self.expr(x.left, env)
                if isinstance(v, EV):
                    v = self.bind(v)
                if isinstance(v, (ON, OO)):
                    c = f"{v.name}_none"
                elif isinstance(v, V):
                    c = f"({py}.isNone {v.e})"
                elif isinstance(v, NoneV):
                    c = "true"
                else:
                    raise Bad("`is None` on a value that is never None: " + ast.unparse(x))
                return Bv(c if isinstance(x.ops[0], ast.Is) else f"(!{c})")
            terms, left = [], self.expr(x.left, env)
            for o, r in zip(x.ops, x.comparators):
                right = self.expr(r, env)
                sym = {ast.Eq: "=", ast.NotEq: "≠", ast.Lt: "<", ast.LtE: "≤", ast.Gt: ">", ast.GtE: "≥"}.get(type(o))
                if sym is None:
                    raise Bad("comparison outside the subset: " + ast.unparse(x))
                if isinstance(left, I) and isinstance(right, I):
                    terms.append(f"decide ({left.e} {sym} {right.e})")
                elif isinstance(left, (N, DS)) and isinstance(right, (N, DS)) and sym in ("=", "≠"):
                    a = left.e if isinstance(left, N) else left.as_string()
                    b = right.e if isinstance(right, N) else right.as_string()
                    terms.append(f"({a} == {b})" if sym == "=" else f"({a} != {b})")
                else:
                    raise Bad("comparison of values outside the subset: " + ast.unparse(x))
                left = right
            return Bv("(" + " && ".join(terms) + ")")
        if isinstance(x, ast.IfExp):
            c, env_t, env_f = self.cond(x.test, env)
            a, b = self.coerce_opt(self.expr(x.body, env_t), "?"), self.coerce_opt(self.expr(x.orelse, env_f), "?")
            k = unify([kind_of(a), kind_of(b)])
            return self.from_kind(k, f"(if {c} then {self.as_kind(a, k)} else {self.as_kind(b, k)})")
        if isinstance(x, ast.Subscript):
            v = self.expr(x.value, env)
            if isinstance(v, Marker) and v.what == "key_parts":
                s = x.slice
                if isinstance(s, ast.Constant) and s.value == 0:
                    return DS([("c", ["key_0"])])
                if isinstance(s, ast.Slice) and s.upper is None and s.step is None and isinstance(s.lower, ast.Constant) and s.lower.value == 1:
                    return Marker("key_rest")
                raise Bad("subscript of the split key outside the subset")
            if isinstance(v, EV):
                v = self.bind(v)
            if isinstance(v, V):
                k = self.expr(x.slice, env)
                if isinstance(k, DS):
                    return EV(f"{py}.item {v.e} {k.as_string()}")
            raise Bad("subscript outside the subset: " + ast.unparse(x)[:80])
        if isinstance(x, ast.Call):
            return self.call(x, env)
        raise Bad("expression outside the subset: " + ast.unparse(x)[:100])

    def bind_args(self, call, names, defaults, what):
        if len(call.args) > len(names):
            raise Bad(f"{what}: too many positional arguments")
        got = dict(zip(names, call.args))
        for kw in call.keywords:
            if kw.arg is None or kw.arg not in names or kw.arg in got:
                raise Bad(f"{what}: unexpected keyword {kw.arg}")
            got[kw.arg] = kw.value
        for n in names:
            if n not in got:
                if n not in defaults:
                    raise Bad(f"{what}: argument {n} missing")
                got[n] = defaults[n]
        return got

    def opt_name_args(self, v, what):
        """an Optional[str] argument as the pair (<none flag>, <string>)"""
        if isinstance(v, ON):
            return f"{v.name}_none {v.name}"
        if isinstance(v, NoneV):
            return 'true ""'
        return "false " + self.as_name(v, what)

    def call(self, x, env):
        py, f = self.py, x.func
        src = ast.unparse(f)
        if src in ("t.cast", "cast") and len(x.args) == 2 and not x.keywords:
            return self.expr(x.args[1], env)
        if src == "abs" and len(x.args) == 1 and not x.keywords:
            return I(f"(absInt {self.as_int(self.expr(x.args[0], env), 'abs()')})")
        if src in ("pendulum.get_locale", "get_locale") and not x.args and not x.keywords:
            return N("get_locale")
        if src == "pendulum.locale" and len(x.args) == 1 and not x.keywords:
            self.need("helpers_locale")
            return Loc(f"(helpers_locale load {self.as_name(self.expr(x.args[0], env), 'pendulum.locale()')})")
        if src in ("Locale.load", "cls.load") and len(x.args) == 1 and not x.keywords:
            return Loc(f"(load {self.as_name(self.expr(x.args[0], env), 'Locale.load()')})")
        if src in self.ctx.get("now_exprs", ()) and not x.args and not x.keywords:
            return O("now")
        if src == "self.diff" and "diff_sig" in self.ctx:
            names, defaults = self.ctx["diff_sig"]
            got = self.bind_args(x, names, defaults, "self.diff()")
            other = self.coerce_opt(self.expr(got["dt"], env), "dt")
            if not isinstance(other, O):
                raise Bad("self.diff(): the argument is not the other value")
            ab = got["abs"]
            ab = self.as_bool(self.expr(ab, env), "abs") if isinstance(ab, ast.AST) else ab
            return DA(f"(diff {other.e} {ab})")
        if src == "pendulum.format_diff":
            self.need("format_diff")
            names, defaults = self.ctx["format_diff_sig"]
            got = self.bind_args(x, names, defaults, "format_diff()")
            vals = {n: (self.expr(v, env) if isinstance(v, ast.AST) else v) for n, v in got.items()}
            if not isinstance(vals["diff"], DA):
                raise Bad("format_diff(): first argument is not the difference")
            return EV(f"format_diff py load get_locale {vals['diff'].e} {self.as_bool(vals['is_now'], 'is_now')} "
                      f"{self.as_bool(vals['absolute'], 'absolute')} {self.opt_name_args(vals['locale'], 'locale')}")
        if src == "difference_formatter.format":
            self.need("format")
            self.need("init_locale")
            names, defaults = self.ctx["format_sig"]
            got = self.bind_args(x, names, defaults, "DifferenceFormatter.format()")
            vals = {n: (self.expr(v, env) if isinstance(v, ast.AST) else v) for n, v in got.items()}
            if not isinstance(vals["diff"], DA):
                raise Bad("format(): first argument is not the difference")
            return EV(f"format py (init_locale load) load {vals['diff'].e} {self.as_bool(vals['is_now'], 'is_now')} "
                      f"{self.as_bool(vals['absolute'], 'absolute')} {self.opt_name_args(vals['locale'], 'locale')}")
        if src in ("self._data['plural']", "self._data['ordinal']") and len(x.args) == 1 and not x.keywords \
                and isinstance(env.get("self"), Marker) and env["self"].what == "locale_self":
            which = "plural" if "plural" in src else "ordinal"
            return DS([("c", [f"(data_{which} {self.as_int(self.expr(x.args[0], env), which)})"])])
        if isinstance(f, ast.Attribute):
            m = f.attr
            recv = self.expr(f.value, env)
            if isinstance(recv, Loc):
                if m == "get" and len(x.args) == 1 and not x.keywords:
                    return EV(f"{recv.e}.get {self.as_key(self.expr(x.args[0], env), '.get()')}")
                if m in ("plural", "ordinal") and len(x.args) == 1 and not x.keywords:
                    return DS([("c", [f"({recv.e}.{m} {self.as_int(self.expr(x.args[0], env), m)})"])])
                if m == "translation" and len(x.args) == 1 and not x.keywords:
                    self.need("locale_translation")
                    return EV(f"locale_translation {recv.e} {self.as_key(self.expr(x.args[0], env), '.translation()')}")
                raise Bad(f"locale method outside the subset: .{m}()")
            if m == "format" and len(x.args) == 1 and not x.keywords:
                if isinstance(recv, EV):
                    recv = self.bind(recv)
                if isinstance(recv, V):
                    return EV(f"{py}.format {recv.e} {self.as_v(self.expr(x.args[0], env), '.format()')}")
            if m == "join" and len(x.args) == 1 and not x.keywords and isinstance(recv, V):
                a = self.expr(x.args[0], env)
                if isinstance(a, LV):
                    return EV(f"{py}.join {recv.e} {a.e}")
            if m == "split" and isinstance(recv, Marker) and recv.what == "key_param" and len(x.args) == 1 \
                    and isinstance(x.args[0], ast.Constant) and x.args[0].value == ".":
                return Marker("key_parts")
        raise Bad("call outside the subset: " + ast.unparse(x)[:100])

    # --- statements
    def let(self, name, v, env):
        """bind a computed value to a fresh Lean name; strings stay symbolic"""
        if isinstance(v, EV):
            v = self.bind(v, name)
            env[name] = v
            return self.flush()
        head = self.flush()
        if isinstance(v, (DS, ON, OO, NoneV, Marker)):
            env[name] = v
            return head
        nm = self.fresh(name)
        env[name] = type(v)(nm)
        return head + f"let {nm} : {lean_ty(v.kind)} := {v.e};\n"

    def block(self, stmts, env, cont, mode="EV"):
        if not stmts:
            if cont is None:
                raise Bad("control falls off the end")
            return self.flush() + cont.call(self, env)
        s, rest = stmts[0], stmts[1:]
        if isinstance(s, ast.Expr) and isinstance(s.value, ast.Constant):
            return self.block(rest, env, cont, mode)
        if isinstance(s, ast.ImportFrom):
            if s.module == "pendulum.locales.locale" and [(a.name, a.asname) for a in s.names] == [("Locale", None)]:
                return self.block(rest, env, cont, mode)
            raise Bad("import outside the subset: " + ast.unparse(s))
        if isinstance(s, ast.AnnAssign) and s.value is not None:
            s = ast.Assign(targets=[s.target], value=s.value)
        if isinstance(s, ast.Assign) and len(s.targets) == 1:
            tg = s.targets[0]
            env = dict(env)
            if isinstance(tg, ast.Tuple) and len(tg.elts) == 2 and all(isinstance(e, ast.Name) for e in tg.elts):
                v = self.expr(s.value, env)
                if not isinstance(v, Pair):
                    raise Bad("tuple unpacking of something that is not an element of the component list")
                a, b = self.fresh(tg.elts[0].id), self.fresh(tg.elts[1].id)
                env[tg.elts[0].id], env[tg.elts[1].id] = DS([("c", [a])]), I(b)
                return (self.flush() + f"let {a} : String := {v.e}.1;\nlet {b} : Int := {v.e}.2;\n"
                        + self.block(rest, env, cont, mode))
            if isinstance(tg, ast.Name):
                if isinstance(s.value, ast.List):
                    return self.list_literal(tg.id, s.value, env) + self.block(rest, env, cont, mode)
                v = self.expr(s.value, env)
                return self.let(tg.id, v, env) + self.block(rest, env, cont, mode)
            raise Bad("assignment target outside the subset: " + ast.unparse(s)[:80])
        if isinstance(s, ast.AugAssign) and isinstance(s.target, ast.Name) and isinstance(s.op, (ast.Add, ast.Sub)):
            env = dict(env)
            cur, v = env.get(s.target.id), self.expr(s.value, env)
            if isinstance(cur, I) and isinstance(v, I):
                o = "+" if isinstance(s.op, ast.Add) else "-"
                return self.let(s.target.id, I(f"({cur.e} {o} {v.e})"), env) + self.block(rest, env, cont, mode)
            if isinstance(cur, DS) and isinstance(v, DS) and isinstance(s.op, ast.Add):
                env[s.target.id] = cur.concat(v)
                return self.flush() + self.block(rest, env, cont, mode)
            raise Bad("augmented assignment outside the subset: " + ast.unparse(s)[:80])
        if isinstance(s, ast.Expr) and isinstance(s.value, ast.Call) and isinstance(s.value.func, ast.Attribute) \
                and s.value.func.attr == "append" and isinstance(s.value.func.value, ast.Name) and len(s.value.args) == 1:
            nm = s.value.func.value.id
            cur = env.get(nm)
            if not isinstance(cur, LV):
                raise Bad(".append() on something that is not a list of objects")
            item = self.as_v(self.expr(s.value.args[0], env), ".append()")
            env = dict(env)
            return self.let(nm, LV(f"({cur.e} ++ [{item}])"), env) + self.block(rest, env, cont, mode)
        if isinstance(s, ast.If):
            return self.do_if(s, rest, env, cont, mode)
        if isinstance(s, ast.For):
            return self.do_for(s, rest, env, cont, mode)
        if isinstance(s, ast.Try):
            return self.do_try(s, rest, env, cont, mode)
        if isinstance(s, ast.Return) and s.value is not None:
            v = self.expr(s.value, env)
            if mode == "EV":
                if isinstance(v, EV):
                    return self.flush() + v.e
                return self.flush() + f"Except.ok {self.as_v(v, 'return')}"
            raise Bad("return in a block translated without a result")
        raise Bad("statement outside the subset: " + ast.unparse(s)[:100])

    def list_literal(self, name, lst, env):
        if not lst.elts:
            nm = self.fresh(name)
            env[name] = LV(nm)
            return self.flush() + f"let {nm} : List V := [];\n"
        items = []
        for e in lst.elts:
            if not (isinstance(e, ast.Tuple) and len(e.elts) == 2):
                raise Bad("list literal outside the subset")
            a, b = self.expr(e.elts[0], env), self.expr(e.elts[1], env)
            if not (isinstance(a, DS) and a.literal() is not None and isinstance(b, I)):
                raise Bad("component list entry is not (<literal name>, <integer>)")
            if "." in ast.literal_eval(e.elts[0]):
                raise Bad("a unit name containing '.'")
            items.append(f"({a.literal()}, {b.e})")
        nm = self.fresh(name)
        env[name] = Pairs(nm)
        return self.flush() + f"let {nm} : List (String × Int) := [" + ", ".join(items) + "];\n"

    def two_pass(self, thunk, ks):
        n0, b0 = self.n, self.binds
        for k in ks:
            if not isinstance(k, External):
                k.types, k.seen = None, []
        self.pre = []
        thunk()
        dry_binds = self.binds - b0
        seen = [row for k in ks if not isinstance(k, External) for row in k.seen]
        names = next(k.names for k in ks)
        if not seen and any(not isinstance(k, External) for k in ks):
            raise Bad("no path reaches the code after a branch (dead code)")
        types = [unify(col) for col in zip(*seen)] if names else []
        for k in ks:
            if not isinstance(k, External):
                k.types = types
        self.n, self.binds, self.pre = n0, b0, []
        return thunk(), dry_binds

    def bind_names(self, names, types, env, term):
        """`let` the (tuple of) joined variables"""
        env2, out = dict(env), ""
        if len(names) == 1:
            nm = self.fresh(names[0])
            env2[names[0]] = self.from_kind(types[0], nm)
            return f"let {nm} : {lean_ty(types[0])} := {term};\n", env2
        j = self.fresh("j")
        out = f"let {j} : " + " × ".join(lean_ty(t) for t in types) + f" := {term};\n"
        for i, (n, t) in enumerate(zip(names, types)):
            nm = self.fresh(n)
            proj = f"{j}" + ".2" * i + (".1" if i < len(names) - 1 else "")
            out += f"let {nm} : {lean_ty(t)} := {proj};\n"
            env2[n] = self.from_kind(t, nm)
        return out, env2

    def do_if(self, s, rest, env, cont, mode):
        c, env_t, env_f = self.cond(s.test, env)
        head = self.flush()
        body, orelse = list(s.body), list(s.orelse)
        needs = needs_after(rest, cont)
        names = [n for n in stores(body + orelse) if n in needs]
        if not has_exit(body + orelse) and names:
            y = Yield(names, False)
            try:
                (th, el), binds = self.two_pass(lambda: (self.block(body, env_t, y, "none"), self.block(orelse, env_f, y, "none")), [y])
            except KeyError as e:
                raise Bad(f"variable {e} is not assigned on every path") from None
            if binds == 0:
                lets, env2 = self.bind_names(names, y.types, env, f"(if {c} then\n{paren(th)}\nelse\n{paren(el)})")
                return head + lets + self.block(rest, env2, cont, mode)
        if not rest:
            th = self.block(body, env_t, cont, mode)
            el = self.block(orelse, env_f, cont, mode)
            return head + f"if {c} then\n{paren(th)}\nelse\n{paren(el)}"
        j = Join(self.fresh("k"), names, needs)
        try:
            (th, el), _ = self.two_pass(lambda: (self.block(body, env_t, j, mode), self.block(orelse, env_f, j, mode)), [j])
        except KeyError as e:
            raise Bad(f"variable {e} is not assigned on every path") from None
        env2, params = dict(env), []
        for n, t in zip(names, j.types):
            nm = self.fresh(n)
            params.append(f"({nm} : {lean_ty(t)})")
            env2[n] = self.from_kind(t, nm)
        kbody = self.block(rest, env2, cont, mode)
        return (head + f"let {j.k} := fun " + (" ".join(params) if params else "(_ : Unit)") + f" =>\n({paren(kbody)} : {res_ty(mode)});\n"
                + f"if {c} then\n{paren(th)}\nelse\n{paren(el)}")

    def do_for(self, s, rest, env, cont, mode):
        if s.orelse or not isinstance(s.target, ast.Name):
            raise Bad("for loop outside the subset")
        it = self.expr(s.iter, env)
        head = self.flush()
        if isinstance(it, Pairs):
            elem_t, iter_e, mk = "String × Int", it.e, Pair
        elif isinstance(it, Marker) and it.what == "key_rest":
            elem_t, iter_e, mk = "String", "key_rest", lambda e: DS([("c", [e])])
        else:
            raise Bad("for loop over something that is not a literal list")
        carried = [n for n in stores(list(s.body)) if n in env and n != s.target.id]
        if len(carried) != 1:
            raise Bad(f"for loop carrying {len(carried)} variables (exactly one is supported): {carried}")
        cv = carried[0]
        st_kind = kind_of(env[cv])
        st, xe = self.fresh(cv), self.fresh(s.target.id)
        env_b = dict(env)
        env_b[cv] = self.from_kind(st_kind, st)
        env_b[s.target.id] = mk(xe)
        y = Yield([cv], True)
        (body,), _ = self.two_pass(lambda: (self.block(list(s.body), env_b, y, "M|Except ε (" + lean_ty(st_kind) + ")"),), [y])
        if y.types != [st_kind]:
            raise Bad("the loop variable changes kind inside the loop")
        fn, res = self.fresh("body"), self.fresh(cv)
        env2 = dict(env)
        env2[cv] = self.from_kind(st_kind, res)
        return (head + f"let {fn} := fun ({st} : {st_kind}) ({xe} : {elem_t}) =>\n({paren(body)} : Except ε ({lean_ty(st_kind)}));\n"
                + f"pyFor {iter_e} {self.as_kind(env[cv], st_kind)} {fn} >>=ₑ fun {res} =>\n"
                + self.block(rest, env2, cont, mode))

    def do_try(self, s, rest, env, cont, mode):
        if s.orelse or s.finalbody or len(s.handlers) != 1 or not isinstance(s.handlers[0].type, ast.Name) or s.handlers[0].name:
            raise Bad("try statement outside the subset")
        exc = s.handlers[0].type.id
        hbody = list(s.handlers[0].body)
        if has_exit(list(s.body) + hbody):
            raise Bad("return/raise inside try")
        needs = needs_after(rest, cont)
        names = [n for n in stores(list(s.body) + hbody) if n in needs]
        if len(names) != 1:
            raise Bad("try statement assigning other than exactly one live variable")
        head = self.flush()
        y, j = Yield(names, True), Join(self.fresh("k"), names, needs)
        (tb, hb), _ = self.two_pass(lambda: (self.block(list(s.body), env, y, "try"), self.block(hbody, env, j, mode)), [y, j])
        nm = self.fresh(names[0])
        env2 = dict(env)
        env2[names[0]] = self.from_kind(j.types[0], nm)
        kbody = self.block(rest, env2, cont, mode)
        r = self.fresh("r")
        return (head + f"let {j.k} := fun ({nm} : {lean_ty(j.types[0])}) =>\n({paren(kbody)} : {res_ty(mode)});\n"
                + f"match ((\n{tb}) : Except ε ({lean_ty(j.types[0])})) with\n| Except.ok {r} => {j.k} {r}\n| Except.error e => if {self.py}.isExc e {q(exc)} then\n{paren(hb)}\nelse Except.error e")


# ----------------------------------------------------------------------------- driver

PRELUDE = """/-- Python built-ins the translated code applies to objects (not pendulum source) -/
structure PyOps (ε V : Type) where
  /-- `x is None` -/
  isNone : V → Bool
  /-- `bool(x)` -/
  truthy : V → Bool
  /-- an `int` as an object -/
  ofInt : Int → V
  /-- `x.format(y)` -/
  format : V → V → Except ε V
  /-- `x[key]` -/
  item : V → String → Except ε V
  /-- `f"{a / b:.2f}"` for an int `a` and the float `b` (a power of ten, given as an integer) -/
  float2f : Int → Int → V
  /-- `sep.join(parts)` -/
  join : V → List V → Except ε V
  /-- an f-string made of `{x}` fields only: the concatenation of `str(x)` -/
  fstring : List V → Except ε V
  /-- `isinstance(e, <class named s>)` for a raised exception -/
  isExc : ε → String → Bool

/-- a loaded `Locale` object: `get(<dotted key, split at the dots>)`, `plural(n)`, `ordinal(n)` -/
structure LocaleOps (ε V : Type) where
  get : List String → Except ε V
  plural : Int → String
  ordinal : Int → String

/-- the attributes of the difference that `DifferenceFormatter.format` reads -/
structure DiffAttrs where
  years : Int
  months : Int
  weeks : Int
  remaining_days : Int
  hours : Int
  minutes : Int
  remaining_seconds : Int
  invert : Bool

/-- `abs(x)` on an int -/
def absInt (x : Int) : Int := if x < 0 then -x else x

/-- sequencing of a call that may raise with the rest of the block -/
def bindE {ε α β : Type} (x : Except ε α) (f : α → Except ε β) : Except ε β :=
  match x with
  | .error e => .error e
  | .ok v => f v

@[inherit_doc] infixl:55 " >>=ₑ " => bindE

/-- `for x in xs: <body>` with the loop-carried variable `s`; the body may raise -/
def pyFor {ε σ α : Type} : List α → σ → (σ → α → Except ε σ) → Except ε σ
  | [], s, _ => .ok s
  | x :: r, s, f => f s x >>=ₑ fun s' => pyFor r s' f
"""


def indent(term, n=2):
    return "\n".join((" " * n + ln) if ln else ln for ln in term.split("\n"))


def _sig(fn, skip_first=True):
    a = fn.args
    if a.vararg or a.kwarg or a.kwonlyargs or a.posonlyargs:
        raise Bad(f"{fn.name}: signature outside the subset")
    names = [x.arg for x in a.args]
    if skip_first:
        if not names or names[0] not in ("self", "cls"):
            raise Bad(f"{fn.name}: first parameter is not self/cls")
        names = names[1:]
    defaults = dict(zip(names[len(names) - len(a.defaults):], a.defaults)) if a.defaults else {}
    return names, defaults


def _body(fn):
    return [s for s in fn.body if not (isinstance(s, ast.Expr) and isinstance(s.value, ast.Constant))]


def _methods(tree, cname):
    cls = next((n for n in tree.body if isinstance(n, ast.ClassDef) and n.name == cname), None)
    if cls is None:
        raise Bad(f"class {cname} not found")
    fns = {}
    for n in cls.body:
        if isinstance(n, ast.FunctionDef) and not any(ast.unparse(d) == "overload" for d in n.decorator_list):
            fns.setdefault(n.name, n)
    return fns


def _functions(tree):
    return {n.name: n for n in tree.body if isinstance(n, ast.FunctionDef)}


def _default_is(defaults, name, value, what):
    d = defaults.get(name)
    if not (isinstance(d, ast.Constant) and d.value is value if value in (None, True, False) else
            isinstance(d, ast.Constant) and d.value == value):
        raise Bad(f"{what}: default of `{name}` is no longer {value!r}")


GEN_HDR = "{ε V : Type} (py : PyOps ε V)"


def t_format(ctx, fn):
    """DifferenceFormatter.format -> select_unit, render, few_seconds, format"""
    names, defaults = _sig(fn)
    if names != ["diff", "is_now", "absolute", "locale"]:
        raise Bad(f"signature {names}")
    _default_is(defaults, "is_now", True, "format")
    _default_is(defaults, "absolute", False, "format")
    _default_is(defaults, "locale", None, "format")
    ctx["format_sig"] = (names, {"is_now": Bv("true"), "absolute": Bv("false"), "locale": NoneV()})
    b = _body(fn)
    if len(b) < 3 or not (isinstance(b[0], ast.Assign) and ast.unparse(b[0].targets[0]) == "locale") or not isinstance(b[1], ast.If):
        raise Bad("body is no longer `locale = ...; if <cascade>; <rendering>`")
    out = []
    # 1. the cascade
    arms, node = [], b[1]
    while True:
        arms.append((node.test, list(node.body)))
        if len(node.orelse) == 1 and isinstance(node.orelse[0], ast.If):
            node = node.orelse[0]
        else:
            final = list(node.orelse)
            break
    if not final:
        raise Bad("the cascade has no final else")
    first = stores(arms[0][1])
    uv = [n for n in first if any(isinstance(x, ast.Assign) and ast.unparse(x.targets[0]) == n and isinstance(x.value, ast.Constant)
                                  and isinstance(x.value.value, str) for x in arms[0][1])]
    if len(first) != 2 or len(uv) != 1:
        raise Bad(f"the first arm of the cascade assigns {first} instead of a unit name and a count")
    uvar, cvar = uv[0], [n for n in first if n != uv[0]][0]
    join_vars = [uvar, cvar]
    lines, units = [], []
    for test, body in arms:
        if has_exit(body):
            raise Bad("a return inside an arm of the cascade other than the final else")
        if sorted(stores(body)) != sorted(join_vars):
            raise Bad(f"an arm of the cascade assigns {stores(body)} instead of {join_vars}")
        tr = Tr(ctx)
        env = {"diff": DA("diff")}
        c = tr.as_bool(tr.expr(test, env), "cascade test")
        y = Yield(join_vars, False)
        y.types, y.wrap = ["String", "Int"], "some "
        arm = tr.block(body, env, y, "none")
        if tr.binds:
            raise Bad("a call that may raise inside the cascade")
        for s in body:
            if isinstance(s, ast.Assign) and ast.unparse(s.targets[0]) == uvar:
                if not (isinstance(s.value, ast.Constant) and isinstance(s.value.value, str)) or "." in s.value.value:
                    raise Bad("unit is not assigned a dot-free literal")
                units.append(s.value.value)
        lines.append(f"if {c} then\n{paren(arm)}\nelse ")
    ctx["units"] = units
    out.append("/-- difference_formatter.py, the `if/elif` cascade of `format`: unit and count, `none` = the final `else` -/\n"
               "def select_unit (diff : DiffAttrs) : Option (String × Int) :=\n" + indent("".join(lines) + "none") + "\n")
    # 2. the rendering after the cascade
    tr = Tr(ctx)
    env = {"diff": DA("diff"), "locale": Loc("locale"), "is_now": Bv("is_now"), "absolute": Bv("absolute"),
           uvar: DS([("c", ["unit"])]), cvar: I("count"), "t": Marker("t")}
    term = tr.block(b[2:], env, None)
    out.append("/-- `format` after the cascade: `count == 0`, the key, the template(s) fetched and the `.format` chain -/\n"
               f"def render {GEN_HDR} (locale : LocaleOps ε V) (diff : DiffAttrs) (is_now absolute : Bool) (unit : String) (count : Int) : Except ε V :=\n"
               + indent(term) + "\n")
    # 3. the final else
    for s in final:
        for n in ast.walk(s):
            if isinstance(n, ast.Assign) and ast.unparse(n.targets[0]) == uvar:
                if not (isinstance(n.value, ast.Constant) and isinstance(n.value.value, str)) or "." in n.value.value:
                    raise Bad("unit is not assigned a dot-free literal")
    tr = Tr(ctx)
    env = {"diff": DA("diff"), "locale": Loc("locale"), "is_now": Bv("is_now"), "absolute": Bv("absolute"), "t": Marker("t")}
    term = tr.block(final, env, External("k", join_vars, ["String", "Int"]))
    out.append("/-- the final `else` of the cascade (\"a few seconds\"); `k unit count` = falling through to the rendering -/\n"
               f"def few_seconds {GEN_HDR} (locale : LocaleOps ε V) (diff : DiffAttrs) (is_now absolute : Bool) (k : String → Int → Except ε V) : Except ε V :=\n"
               + indent(term) + "\n")
    # 4. the whole
    tr = Tr(ctx)
    env = {"self": Marker("df_self"), "locale": ON("locale"), "Locale": Marker("Locale")}
    pre = tr.block([b[0]], env, Yield(["locale"], False) if False else _LocYield(), "none")
    out.append("/-- `DifferenceFormatter.format(diff, is_now, absolute, locale)`; `self_locale` = `self._locale`, `locale` optional -/\n"
               f"def format {GEN_HDR} (self_locale : LocaleOps ε V) (load : String → LocaleOps ε V) (diff : DiffAttrs) (is_now absolute : Bool) (locale_none : Bool) (locale : String) : Except ε V :=\n"
               + indent(pre + "match select_unit diff with\n| some (unit, count) => render py locale_r diff is_now absolute unit count\n"
                        "| none => few_seconds py locale_r diff is_now absolute (fun unit count => render py locale_r diff is_now absolute unit count)") + "\n")
    return "\n".join(out)


class _LocYield:
    """continuation of the first statement of `format`: binds the resolved locale as `locale_r`"""
    names, needs = ["locale"], {"locale"}

    def call(self, tr, env):
        v = env["locale"]
        if not isinstance(v, Loc):
            raise Bad("the first statement of format no longer resolves `locale` to a loaded Locale")
        return f"let locale_r : LocaleOps ε V := {v.e};\n"


def t_init(ctx, fn):
    names, defaults = _sig(fn)
    b = _body(fn)
    if names != ["locale"] or not (isinstance(defaults.get("locale"), ast.Constant) and isinstance(defaults["locale"].value, str)):
        raise Bad("signature")
    if len(b) != 1 or ast.unparse(b[0]) != "self._locale = Locale.load(locale)":
        raise Bad("body is no longer `self._locale = Locale.load(locale)`")
    return ("/-- `DifferenceFormatter()`: the `_locale` of an instance built with the default argument -/\n"
            f"def init_locale {{L : Type}} (load : String → L) : L :=\n  load {q(defaults['locale'].value)}\n")


def _single_return(fn, what):
    b = _body(fn)
    if len(b) != 1 or not isinstance(b[0], ast.Return) or b[0].value is None:
        raise Bad(f"{what}: body is no longer a single return")
    return b[0].value


def t_locale_simple(ctx, fns):
    out = []
    # translation
    fn = fns["translation"]
    if _sig(fn)[0] != ["key"]:
        raise Bad("translation: signature")
    tr = Tr(ctx)
    v = tr.expr(_single_return(fn, "translation"), {"self": Loc("self"), "key": DS([("s", "key")])})
    if not isinstance(v, EV) or tr.pre:
        raise Bad("translation: no longer a single `self.get(..)`")
    out.append("/-- `Locale.translation(key)` -/\n"
               f"def locale_translation {{ε V : Type}} (self : LocaleOps ε V) (key : List String) : Except ε V :=\n  {v.e}\n")
    ctx["done"].add("locale_translation")
    for which in ("plural", "ordinal"):
        fn = fns[which]
        if _sig(fn)[0] != ["number"]:
            raise Bad(f"{which}: signature")
        tr = Tr(ctx)
        v = tr.expr(_single_return(fn, which), {"self": Marker("locale_self"), "number": I("number")})
        if not isinstance(v, DS) or tr.pre:
            raise Bad(f"{which}: no longer the lambda of the locale data applied to the number")
        out.append(f"/-- `Locale.{which}(number)`; `data_{which}` = `self._data[\"{which}\"]` (regenerated per locale in Gen/Locales) -/\n"
                   f"def locale_{which} (data_{which} : Int → String) (number : Int) : String :=\n  {v.as_string()}\n")
    return "\n".join(out)


def t_ordinalize(ctx, fn):
    if _sig(fn)[0] != ["number"]:
        raise Bad("signature")
    tr = Tr(ctx)
    term = tr.block(_body(fn), {"self": Loc("self"), "number": I("number")}, None)
    return ("/-- `Locale.ordinalize(number)` -/\n"
            f"def locale_ordinalize {GEN_HDR} (self : LocaleOps ε V) (number : Int) : Except ε V :=\n" + indent(term) + "\n")


MEMO_HEAD = "if key in self._key_cache:\n    return self._key_cache[key]"
MEMO_TAIL = ["self._key_cache[key] = result", "return self._key_cache[key]"]


def t_get(ctx, fn):
    names, defaults = _sig(fn)
    if names != ["key", "default"]:
        raise Bad(f"signature {names}")
    _default_is(defaults, "default", None, "get")
    b = _body(fn)
    if len(b) < 4 or ast.unparse(b[0]) != MEMO_HEAD or [ast.unparse(x) for x in b[-2:]] != MEMO_TAIL:
        raise Bad("the `_key_cache` memoisation around the lookup changed shape")
    core = b[1:-2] + [ast.Return(value=ast.Name(id="result", ctx=ast.Load()))]
    tr = Tr(ctx)
    env = {"self": Marker("locale_self"), "key": Marker("key_param"), "default": V("default")}
    term = tr.block(core, env, None)
    return ("/-- `Locale.get(key, default)` without its memo table: `key.split(\".\")` is `key_0 :: key_rest` (never empty),\n"
            "    `data` = `self._data` -/\n"
            f"def locale_get {GEN_HDR} (data : V) (default : V) (key_0 : String) (key_rest : List String) : Except ε V :=\n"
            + indent(term) + "\n")


# --- normalize_locale: the regex is compiled here

_ALL = None


def _all_chars():
    global _ALL
    if _ALL is None:
        _ALL = "".join(chr(c) for c in range(0x110000) if not 0xD800 <= c <= 0xDFFF)
    return _ALL


def _class_ranges(src, flags):
    hits = sorted(ord(c) for c in re.compile(src, flags).findall(_all_chars()))
    out = []
    for c in hits:
        if out and out[-1][1] == c - 1:
            out[-1][1] = c
        else:
            out.append([c, c])
    return out


def compile_regex(pattern, flags):
    """fixed-length sequences of single-character classes with capture groups -> ([(class source, group | None)], ngroups)"""
    import re._constants as sc
    import re._parser as sp
    pos = []

    def cls_src(item):
        op, av = item
        if op is sc.LITERAL:
            return "[\\U%08x]" % av
        if op is sc.IN:
            parts = []
            for o, a in av:
                if o is sc.RANGE:
                    parts.append("\\U%08x-\\U%08x" % a)
                elif o is sc.LITERAL:
                    parts.append("\\U%08x" % a)
                elif o is sc.NEGATE:
                    parts.append("^")
                else:
                    raise Bad(f"regex class item {o}")
            return "[" + "".join(parts) + "]"
        raise Bad(f"regex item {op}")

    def walk(items, group):
        for op, av in items:
            if op is sc.SUBPATTERN:
                g, add, dele, sub = av
                if add or dele or group is not None:
                    raise Bad("regex: nested groups or inline flags")
                walk(sub, g)
            elif op is sc.MAX_REPEAT:
                lo, hi, sub = av
                if lo != hi or len(sub) != 1:
                    raise Bad("regex: a repetition that is not a fixed count of one class")
                for _ in range(lo):
                    pos.append((cls_src(sub[0]), group))
            else:
                pos.append((cls_src((op, av)), group))

    parsed = sp.parse(pattern, flags)
    walk(parsed, None)
    return pos, parsed.state.groups - 1


def t_normalize(ctx, fn):
    names, _ = _sig(fn)
    b = _body(fn)
    if names != ["locale"]:
        raise Bad("signature")
    if len(b) != 2 or not isinstance(b[0], ast.Assign) or not isinstance(b[1], ast.If):
        raise Bad("body is no longer `m = re.match(..); if m: .. else: ..`")
    call = b[0].value
    if not (ast.unparse(b[0].targets[0]) == "m" and isinstance(call, ast.Call) and ast.unparse(call.func) == "re.match"
            and len(call.args) == 3 and isinstance(call.args[0], ast.Constant) and isinstance(call.args[0].value, str)
            and ast.unparse(call.args[1]) == "locale"):
        raise Bad("first statement is no longer `m = re.match(<literal>, locale, <flags>)`")
    pattern = call.args[0].value
    flags = eval(ast.unparse(call.args[2]), {"re": re})          # noqa: S307 — an `re.<FLAG>` expression
    pos, ngroups = compile_regex(pattern, int(flags))
    classes, defs = {}, []
    for src, _g in pos:
        if src not in classes:
            classes[src] = len(classes)
            rs = _class_ranges(src, flags)
            test = " || ".join(f"(decide ({lo} ≤ n) && decide (n ≤ {hi}))" if lo != hi else f"decide (n = {lo})" for lo, hi in rs) or "false"
            defs.append(f"/-- the class `{src}` under flags {int(flags)} (membership computed with Python's `re` over all code points) -/\n"
                        f"def re_class_{classes[src]} (c : Char) : Bool :=\n  let n := c.toNat;\n  {test}\n")
    cs = [f"c{i}" for i in range(len(pos))]
    groups = [[c for c, (_s, g) in zip(cs, pos) if g == k + 1] for k in range(ngroups)]
    gty = " × ".join(["List Char"] * ngroups) if ngroups else "Unit"
    gval = "(" + ", ".join("[" + ", ".join(g) + "]" for g in groups) + ")" if ngroups else "()"
    tests = " && ".join(f"re_class_{classes[s]} {c}" for c, (s, _g) in zip(cs, pos)) or "true"
    defs.append(f"/-- `re.match({pattern!r}, s, {ast.unparse(call.args[2])})`: the capture groups of a match at the start of `s` -/\n"
                f"def re_match (s : List Char) : Option ({gty}) :=\n  match s with\n  | " + " :: ".join(cs + ["_"]) +
                f" =>\n    if {tests} then some {gval} else none\n  | _ => none\n")
    # self-test of the compiled form against `re`
    import random
    rnd = random.Random(7)
    rx = re.compile(pattern, flags)
    cls_rx = [re.compile(s, flags) for s, _ in pos]
    alphabet = "abzAZ-_ .0İıſKKé"
    for _ in range(4000):
        w = "".join(rnd.choice(alphabet) for _ in range(rnd.randint(0, len(pos) + 2)))
        mine = len(w) >= len(pos) and all(r.fullmatch(ch) for r, ch in zip(cls_rx, w))
        m = rx.match(w)
        if bool(m) != mine or (m and [list(g) for g in m.groups()] != [[w[cs.index(c)] for c in g] for g in groups]):
            raise Bad(f"the compiled regex disagrees with re.match on {w!r}")

    def sval(x, has_m):
        """a str expression -> Lean term of type List Char"""
        if isinstance(x, ast.Constant) and isinstance(x.value, str):
            return "[" + ", ".join(f"Char.ofNat {ord(ch)}" for ch in x.value) + "]"
        if isinstance(x, ast.Name) and x.id == "locale":
            return "locale"
        if isinstance(x, ast.Call) and isinstance(x.func, ast.Attribute) and not x.keywords:
            if x.func.attr == "lower" and not x.args:
                return f"(lower {sval(x.func.value, has_m)})"
            if x.func.attr == "group" and ast.unparse(x.func.value) == "m" and has_m and len(x.args) == 1 \
                    and isinstance(x.args[0], ast.Constant) and 1 <= x.args[0].value <= ngroups:
                return f"g{x.args[0].value}"
        if isinstance(x, ast.JoinedStr):
            parts = []
            for p in x.values:
                if isinstance(p, ast.Constant):
                    parts.append(sval(p, has_m))
                elif isinstance(p, ast.FormattedValue) and p.format_spec is None and p.conversion == -1:
                    parts.append(sval(p.value, has_m))
                else:
                    raise Bad("f-string part outside the subset")
            return "(" + " ++ ".join(parts) + ")"
        raise Bad("string expression outside the subset: " + ast.unparse(x)[:80])

    iff = b[1]
    if ast.unparse(iff.test) != "m" or len(iff.body) != 1 or not isinstance(iff.body[0], ast.Return) \
            or len(iff.orelse) != 1 or not isinstance(iff.orelse[0], ast.Return):
        raise Bad("second statement is no longer `if m: return .. else: return ..`")
    gpat = "(" + ", ".join(f"g{k + 1}" for k in range(ngroups)) + ")" if ngroups else "()"
    defs.append("/-- `Locale.normalize_locale(locale)`; strings are lists of code points, `lower` = `str.lower` -/\n"
                "def normalize_locale (lower : List Char → List Char) (locale : List Char) : List Char :=\n"
                f"  match re_match locale with\n  | some {gpat} => {sval(iff.body[0].value, True)}\n  | none => {sval(iff.orelse[0].value, False)}\n")
    return "\n".join(defs)


LOAD_HEAD = ["if isinstance(locale, Locale):\n    return locale", "locale = cls.normalize_locale(locale)",
             "if locale in cls._cache:\n    return cls._cache[locale]"]
LOAD_TAIL = ["cls._cache[locale] = cls(locale, m.locale)", "return cls._cache[locale]"]
FUEL = 8


def t_load(ctx, fn):
    """the name under which the Locale is built and cached, and the directory its data is imported from"""
    if "normalize_locale" not in ctx["done"]:
        raise Bad("depends on `normalize_locale`, which could not be translated")
    names, _ = _sig(fn)
    b = _body(fn)
    if names != ["locale"] or [ast.unparse(x) for x in b[:3]] != LOAD_HEAD or [ast.unparse(x) for x in b[-2:]] != LOAD_TAIL:
        raise Bad("the isinstance shortcut / normalisation / `_cache` memoisation around the lookup changed shape")
    core = b[3:-2]
    env = {"locale": "locale_1"}          # python name -> Lean term (List Char)
    lines = ["let locale_1 : List Char := normalize_locale lower locale;"]
    n = [1]

    def sv(x):
        if isinstance(x, ast.Name) and x.id in env:
            return env[x.id]
        if isinstance(x, ast.Subscript) and isinstance(x.slice, ast.Constant) and x.slice.value == 0 and isinstance(x.value, ast.Call) \
                and isinstance(x.value.func, ast.Attribute) and x.value.func.attr == "split" and len(x.value.args) == 1 \
                and isinstance(x.value.args[0], ast.Constant) and isinstance(x.value.args[0].value, str) and len(x.value.args[0].value) == 1:
            return f"(({sv(x.value.func.value)}).takeWhile (fun ch => ch != Char.ofNat {ord(x.value.args[0].value)}))"
        if ast.unparse(x).startswith("cast(Path, resources.files(__package__).joinpath(") and isinstance(x, ast.Call):
            inner = x.args[1]
            if isinstance(inner, ast.Call) and len(inner.args) == 1:
                return sv(inner.args[0])
        raise Bad("string expression outside the subset: " + ast.unparse(x)[:80])

    def bexpr(x):
        if isinstance(x, ast.UnaryOp) and isinstance(x.op, ast.Not):
            return f"(!{bexpr(x.operand)})"
        if isinstance(x, ast.Call) and isinstance(x.func, ast.Attribute) and x.func.attr == "exists" and not x.args:
            return f"(path_exists {sv(x.func.value)})"
        if isinstance(x, ast.Compare) and len(x.ops) == 1 and isinstance(x.ops[0], (ast.Eq, ast.NotEq)):
            return f"({sv(x.left)} {'==' if isinstance(x.ops[0], ast.Eq) else '!='} {sv(x.comparators[0])})"
        raise Bad("condition outside the subset: " + ast.unparse(x)[:80])

    loops = []
    i = 0
    while i < len(core):
        s = core[i]
        if isinstance(s, ast.Assign) and len(s.targets) == 1 and isinstance(s.targets[0], ast.Name):
            if ast.unparse(s.value).startswith("import_module("):
                break
            n[0] += 1
            nm = f"{s.targets[0].id}_{n[0]}"
            lines.append(f"let {nm} : List Char := {sv(s.value)};")
            env[s.targets[0].id] = nm
        elif isinstance(s, ast.While) and not s.orelse:
            carried = stores(list(s.body))
            if len(carried) != 1 or carried[0] not in env:
                raise Bad("while loop carrying other than one string variable")
            cv = carried[0]
            outer = dict(env)
            frees = [v for k, v in outer.items() if k != cv]
            env[cv] = cv
            cond = bexpr(s.test)
            body = list(s.body)
            # body: [if c: raise E(..)]* ; cv = <expr>
            arms = []
            for st in body[:-1]:
                if not (isinstance(st, ast.If) and not st.orelse and len(st.body) == 1 and isinstance(st.body[0], ast.Raise)
                        and isinstance(st.body[0].exc, ast.Call) and isinstance(st.body[0].exc.func, ast.Name)):
                    raise Bad("while body statement outside the subset: " + ast.unparse(st)[:80])
                arms.append(f"if {bexpr(st.test)} then .error {q(st.body[0].exc.func.id)} else")
            last = body[-1]
            if not (isinstance(last, ast.Assign) and ast.unparse(last.targets[0]) == cv):
                raise Bad("while body does not end with the assignment of the loop variable")
            nxt = sv(last.value)
            lname = f"load_loop_{len(loops) + 1}"
            params = " ".join(f"({v} : List Char)" for v in frees)
            loops.append(f"/-- the `while` loop of `Locale.load` (bounded by `fuel`; every path of the source leaves it in the first iteration) -/\n"
                         f"def {lname} (path_exists : List Char → Bool) {params} : Nat → List Char → Except String (List Char)\n"
                         f"  | 0, _ => .error \"fuel\"\n  | fuel + 1, {cv} =>\n    if {cond} then\n      " + "\n      ".join(arms) +
                         f"\n      {lname} path_exists {' '.join(frees)} fuel {nxt}\n    else .ok {cv}\n")
            n[0] += 1
            nm = f"{cv}_{n[0]}"
            lines.append(f"match {lname} path_exists {' '.join(frees)} {FUEL} {outer[cv]} with\n| .error e => .error e\n| .ok {nm} =>")
            env[cv] = nm
        else:
            raise Bad("statement outside the subset: " + ast.unparse(s)[:80])
        i += 1
    if i != len(core) - 1:
        raise Bad("statements after the module import")
    imp = core[i]
    js = imp.value.args[0] if len(imp.value.args) == 1 else None
    if not (isinstance(js, ast.JoinedStr) and len(js.values) == 3 and isinstance(js.values[0], ast.Constant) and js.values[0].value == "pendulum.locales."
            and isinstance(js.values[2], ast.Constant) and js.values[2].value == ".locale" and isinstance(js.values[1], ast.FormattedValue)):
        raise Bad("the imported module is no longer pendulum.locales.<dir>.locale")
    lines.append(f".ok ({env['locale']}, {sv(js.values[1].value)})")
    return ("\n".join(loops) + "\n/-- `Locale.load(<str>)`: (the name the `Locale` is built and cached under, the directory whose `locale` module is imported),\n"
            "    or the exception; `path_exists d` = the package has an entry `d` -/\n"
            "def locale_load (lower : List Char → List Char) (path_exists : List Char → Bool) (locale : List Char) : Except String (List Char × List Char) :=\n"
            + indent("\n".join(lines)) + "\n")


def pinned(name, fn, what):
    import copy
    fn = copy.deepcopy(fn)
    fn.body = _body(fn) or fn.body            # without the docstring
    fn.decorator_list = []
    return (f"/-- {what}: not translated, pinned verbatim (any edit changes this string) -/\n"
            f"def {name}_src : String :=\n  {q(ast.unparse(fn))}\n")


def t_helpers_locale(ctx, fn):
    names, defaults = _sig(fn, skip_first=False)
    if names != ["name"] or defaults:
        raise Bad("signature")
    v = Tr(ctx).expr(_single_return(fn, "helpers.locale"), {"name": N("name"), "Locale": Marker("Locale")})
    if not isinstance(v, Loc):
        raise Bad("no longer returns Locale.load(name)")
    return ("/-- `pendulum.locale(name)` (helpers.py) -/\n"
            f"def helpers_locale {{L : Type}} (load : String → L) (name : String) : L :=\n  {v.e}\n")


def t_format_diff(ctx, fn, tree):
    names, defaults = _sig(fn, skip_first=False)
    if names != ["diff", "is_now", "absolute", "locale"]:
        raise Bad(f"signature {names}")
    _default_is(defaults, "is_now", True, "format_diff")
    _default_is(defaults, "absolute", False, "format_diff")
    _default_is(defaults, "locale", None, "format_diff")
    ctx["format_diff_sig"] = (names, {"is_now": Bv("true"), "absolute": Bv("false"), "locale": NoneV()})
    inst = [n for n in tree.body if isinstance(n, ast.Assign) and ast.unparse(n.targets[0]) == "difference_formatter"]
    if len(inst) != 1 or ast.unparse(inst[0].value) != "DifferenceFormatter()":
        raise Bad("the module-level `difference_formatter = DifferenceFormatter()` changed")
    tr = Tr(ctx)
    env = {"diff": DA("diff"), "is_now": Bv("is_now"), "absolute": Bv("absolute"), "locale": ON("locale")}
    term = tr.block(_body(fn), env, None)
    return ("/-- `pendulum.format_diff(diff, is_now, absolute, locale)` (helpers.py); `get_locale` = `pendulum._LOCALE` -/\n"
            f"def format_diff {GEN_HDR} (load : String → LocaleOps ε V) (get_locale : String) (diff : DiffAttrs) (is_now absolute : Bool) (locale_none : Bool) (locale : String) : Except ε V :=\n"
            + indent(term) + "\n")


def t_in_words(ctx, fn, lname, cls):
    names, defaults = _sig(fn)
    if names != ["locale", "separator"]:
        raise Bad(f"signature {names}")
    _default_is(defaults, "locale", None, "in_words")
    _default_is(defaults, "separator", " ", "in_words")
    tr = Tr(ctx)
    env = {"self": Marker("words_self"), "locale": ON("locale"), "separator": V("separator"),
           "pendulum": Marker("pendulum"), "Locale": Marker("Locale")}
    term = tr.block(_body(fn), env, None)
    params = " ".join(WORD_ATTRS)
    return (f"/-- `{cls}.in_words(locale, separator)`; the parameters named like attributes are `self.<attribute>` -/\n"
            f"def {lname} {GEN_HDR} (load : String → LocaleOps ε V) (get_locale : String) ({params} : Int) (locale_none : Bool) (locale : String) (separator : V) : Except ε V :=\n"
            + indent(term) + "\n")


def t_dfh(ctx, fns, lname, cls, now_exprs):
    fn, dfn = fns["diff_for_humans"], fns["diff"]
    dn, dd = _sig(dfn)
    if dn != ["dt", "abs"] or not (isinstance(dd.get("abs"), ast.Constant) and isinstance(dd["abs"].value, bool)) \
            or not (isinstance(dd.get("dt"), ast.Constant) and dd["dt"].value is None):
        raise Bad(f"{cls}.diff: signature is no longer (dt=None, abs=<bool>)")
    names, defaults = _sig(fn)
    if names != ["other", "absolute", "locale"]:
        raise Bad(f"signature {names}")
    _default_is(defaults, "other", None, "diff_for_humans")
    _default_is(defaults, "absolute", False, "diff_for_humans")
    _default_is(defaults, "locale", None, "diff_for_humans")
    c2 = dict(ctx)
    c2["diff_sig"] = (dn, {"dt": dd["dt"], "abs": "true" if dd["abs"].value else "false"})
    c2["now_exprs"] = now_exprs
    tr = Tr(c2)
    env = {"self": Marker("dfh_self"), "other": OO("other"), "absolute": Bv("absolute"), "locale": ON("locale"),
           "pendulum": Marker("pendulum")}
    term = tr.block(_body(fn), env, None)
    return (f"/-- `{cls}.diff_for_humans(other, absolute, locale)`; `now` = `{' / '.join(now_exprs)}()`, `diff o a` = the attributes of\n"
            f"    `self.diff(o, a)` (the `abs` default of `{cls}.diff` is `{dd['abs'].value}`) -/\n"
            f"def {lname} {{ε V O : Type}} (py : PyOps ε V) (load : String → LocaleOps ε V) (get_locale : String) (now : O) (diff : O → Bool → DiffAttrs) "
            "(other_none : Bool) (other : O) (absolute : Bool) (locale_none : Bool) (locale : String) : Except ε V :=\n"
            + indent(term) + "\n")


def generate(changed, fallbacks, _write):
    from tools.gen_lean import GEN
    out = ["/-! GENERATED by tools/gen_difffmt.py from src/pendulum/formatting/difference_formatter.py, helpers.py, duration.py,",
           "interval.py, datetime.py, date.py, time.py and locales/locale.py — do not edit.  See the generator's docstring for the",
           "reading of dotted keys (lists of components) and for what is a parameter (`PyOps`, `LocaleOps`, `load`, `get_locale`). -/",
           "set_option linter.unusedVariables false", "namespace Pendulum.Gen.DiffFmt", "", PRELUDE]
    ctx = {"done": set()}

    def finish():
        out.extend(["end Pendulum.Gen.DiffFmt", ""])
        _write(GEN / "DiffFmt.lean", "\n".join(out), changed)
        return 0

    def emit(label, key, thunk):
        try:
            out.append(thunk())
            ctx["done"].add(key)
        except (Bad, StopIteration, KeyError, IndexError, AttributeError, OSError, SyntaxError, TypeError, ValueError, re.error) as e:
            msg = str(e) if isinstance(e, Bad) else repr(e)
            fallbacks.append(f"DiffFmt: cannot translate {label}: {msg}")
            out.append(f"-- UNTRANSLATABLE {label}: {msg[:300]}\n")

    def parse(rel):
        return ast.parse((REPO / "src/pendulum" / rel).read_text())

    try:
        t_loc, t_help, t_df = parse("locales/locale.py"), parse("helpers.py"), parse("formatting/difference_formatter.py")
        t_dur, t_itv = parse("duration.py"), parse("interval.py")
        t_dt, t_date, t_time = parse("datetime.py"), parse("date.py"), parse("time.py")
        lf, hf, dff = _methods(t_loc, "Locale"), _functions(t_help), _methods(t_df, "DifferenceFormatter")
    except (OSError, SyntaxError, Bad) as e:
        fallbacks.append(f"DiffFmt: cannot read the sources: {e}")
        return finish()

    emit("Locale.translation/plural/ordinal", "locale_simple", lambda: t_locale_simple(ctx, lf))
    emit("Locale.ordinalize", "locale_ordinalize", lambda: t_ordinalize(ctx, lf["ordinalize"]))
    emit("Locale.get", "locale_get", lambda: t_get(ctx, lf["get"]))
    emit("Locale.normalize_locale", "normalize_locale", lambda: t_normalize(ctx, lf["normalize_locale"]))
    emit("Locale.load", "locale_load", lambda: t_load(ctx, lf["load"]))
    emit("Locale.match_translation", "match_translation", lambda: pinned("match_translation", lf["match_translation"], "`Locale.match_translation`"))
    emit("helpers.locale", "helpers_locale", lambda: t_helpers_locale(ctx, hf["locale"]))
    emit("DifferenceFormatter.__init__", "init_locale", lambda: t_init(ctx, dff["__init__"]))
    emit("DifferenceFormatter.format", "format", lambda: t_format(ctx, dff["format"]))
    emit("helpers.format_diff", "format_diff", lambda: t_format_diff(ctx, hf["format_diff"], t_help))
    emit("Duration.in_words", "duration_in_words", lambda: t_in_words(ctx, _methods(t_dur, "Duration")["in_words"], "duration_in_words", "Duration"))
    emit("Interval.in_words", "interval_in_words", lambda: t_in_words(ctx, _methods(t_itv, "Interval")["in_words"], "interval_in_words", "Interval"))
    emit("DateTime.diff_for_humans", "datetime_dfh", lambda: t_dfh(ctx, _methods(t_dt, "DateTime"), "datetime_diff_for_humans", "DateTime", ("self.now",)))
    emit("Date.diff_for_humans", "date_dfh", lambda: t_dfh(ctx, _methods(t_date, "Date"), "date_diff_for_humans", "Date", ("self.today",)))
    emit("Time.diff_for_humans", "time_dfh", lambda: t_dfh(ctx, _methods(t_time, "Time"), "time_diff_for_humans", "Time", ("pendulum.now().time",)))
    emit("DateTime.diff", "datetime_diff", lambda: pinned("datetime_diff", _methods(t_dt, "DateTime")["diff"], "`DateTime.diff` (the Interval it builds)"))
    emit("Date.diff", "date_diff", lambda: pinned("date_diff", _methods(t_date, "Date")["diff"], "`Date.diff` (the Interval it builds)"))
    return finish()


if __name__ == "__main__":
    import sys
    sys.path.insert(0, str(Path(__file__).resolve().parent.parent))
    ch, fb = [], []

    def _w(path, text, changed):
        path.write_text(text)
        changed.append(path.name)
    generate(ch, fb, _w)
    print(ch, *fb, sep="\n")
