"""Translator: `local_time` of src/pendulum/_helpers.py AND of rust/src/helpers.rs  ->  lean/Pendulum/Gen/LocalTime.lean

Both function bodies are translated *statement by statement in source order* into one Lean definition each
(`py_local_time_fuel`, `rs_local_time_fuel`, result `(year, month, day, hour, minute, second)`), plus one recursive
definition per `while` loop (`py_local_time_loop<k>` / `rs_local_time_loop<k>`, numbered in source order) whose
condition and body are the loop's own condition and statements.

Statement subset (both languages, one intermediate form):
  assignment, augmented assignment (`+= -= *= //= %=` / Rust `+= -= *= /= %=`), `if`/`else`, `while`, `break`
  (inside `if` inside `while`), final tuple `return` / Rust tail tuple; Python `a, b = divmod(x, C)`.
  * a variable keeps its source name; every (re)assignment is a shadowing `let`;
  * `if` without `break`: `let t := if c then (<then>; (v1, .., vn)) else (<else>; (v1, .., vn))` over the variables
    v1..vn that existed before the `if` and are assigned in it, followed by `let vi := t.<i>`;
  * `while c: body` -> `loop<k> : Nat -> state.. -> readonly.. -> state tuple` where state = the variables that existed
    before the loop and are assigned in its body (in order of first definition in the function), readonly = the other
    variables the loop reads. `loop (fuel+1) s r = if c then (<body>; loop fuel s' r) else s`, `loop 0 s r = s`;
    `break` returns the current state; the statements after an `if` that contains `break` are continued in both arms.
    A variable first assigned inside a branch or loop body is local to it (a later read of it is a fallback).
Expression subset: integer literals, locals, scalar constants and tables of constants.py / constants.rs (by name, as the
  definitions of Gen/Tables.lean; a two-level table `T[i][j]` as `<px>_T_at i j` emitted here from the row count),
  `+ - *`, comparisons, `and or not` / `&& ||`.
  Python `//`, `%`: only by a constant expression whose value is positive  -> Lean `/`, `%` (floor = Euclidean there).
  Rust `/`, `%`  -> `Int.tdiv`, `Int.tmod` (truncating), via tools/gen_rust.py's expression parser.

TRUSTED READING (not translated, recorded in the generated file's header):
  * fixed-width integers (`i64`, `usize`, `isize`, `u32`, ...) are read as unbounded `Int`; `e as T`, `.into()`,
    `.try_into().unwrap()` between integer types are the identity (no overflow / wrap / panic);
  * the first parameter (`unix_time`: Rust `f64`, Python `int` that callers also hand floats) is read as an integer:
    `unix_time.floor() as i64`, `math.floor(unix_time)`, `int(..)` of it are the identity;
  * the third parameter (microsecond) must be returned unchanged as the last tuple component and used nowhere else
    (checked syntactically); it is left out of the Lean definitions;
  * `while` loops are cut after `fuel` iterations (`<px>_local_time` uses FUEL); Proofs/LocalTimeGen.lean proves the
    result is the same for every cut >= 40, i.e. the loops are left through their condition;
  * an out-of-range table index yields 0 (as in Gen/Tables.lean) instead of IndexError / panic.
Anything outside the subset is reported as a fallback (prefix "LocalTime:"); the file then contains a stub so that
the driver still links, and the tie theorems fail.
"""
from __future__ import annotations

import ast
import os
import re
from pathlib import Path

from tools import gen_rust

REPO = Path(os.environ.get("VERIF_REPO", "/repo"))
FUEL = 64
LEAN_KEYWORDS = {"at", "end", "from", "fun", "then", "else", "if", "let", "have", "show", "do", "in", "by", "with", "match",
                 "def", "theorem", "open", "section", "namespace", "instance", "structure", "where", "for", "return", "mut",
                 "Type", "Prop", "Sort", "import", "variable", "local", "using", "calc", "obtain", "fuel"}


class Bad(Exception):
    pass


def L(v):
    return f"({v} : Int)"


def vname(n):
    return n + "_" if n in LEAN_KEYWORDS else n


# ----------------------------------------------------------------------------- intermediate form
# expression: (lean_text, frozenset(reads))          -- lean_text mentions locals by their (sanitised) source name
# statements: ("assign", var, expr) | ("if", cond, [then], [else]) | ("while", cond, [body]) | ("break",)
#             | ("return", [expr, ...])

def assigned(stmts):
    out = []
    for s in stmts:
        if s[0] == "assign":
            out.append(s[1])
        elif s[0] == "if":
            out += assigned(s[2]) + assigned(s[3])
        elif s[0] == "while":
            out += assigned(s[2])
    return out


def reads(stmts):
    out = set()
    for s in stmts:
        if s[0] == "assign":
            out |= s[2][1]
        elif s[0] == "if":
            out |= s[1][1] | reads(s[2]) | reads(s[3])
        elif s[0] == "while":
            out |= s[1][1] | reads(s[2])
        elif s[0] == "return":
            for e in s[1]:
                out |= e[1]
    return out


def has(stmts, kind):
    for s in stmts:
        if s[0] == kind:
            return True
        if s[0] == "if" and (has(s[2], kind) or has(s[3], kind)):
            return True
        if s[0] == "while" and kind != "break" and has(s[2], kind):
            return True
    return False


def tup(names):
    return names[0] if len(names) == 1 else "(" + ", ".join(names) + ")"


def proj(r, k, n):
    if n == 1:
        return r
    return r + ".2" * k + (".1" if k < n - 1 else "")


class Emitter:
    def __init__(self, fname, all_names):
        self.fname, self.aux, self.nt, self.nl = fname, [], 0, 0
        self.names = set(all_names)

    def fresh(self):
        while True:
            self.nt += 1
            n = f"t{self.nt}"
            if n not in self.names:
                return n

    def check(self, e, env, what):
        missing = sorted(e[1] - set(env))
        if missing:
            raise Bad(f"{what} reads {missing}, not defined on this path (first assigned inside a branch/loop, or unknown)")

    def block(self, stmts, env, ind, tail, brk):
        """lines of a Lean term: the statements, then `tail(env)`; `brk` = text a `break` evaluates to (None outside loops)"""
        pad = " " * ind
        if not stmts:
            return [pad + tail(env)]
        s, rest = stmts[0], stmts[1:]
        if s[0] == "assign":
            self.check(s[2], env, f"assignment to {s[1]}")
            env2 = env if s[1] in env else env + [s[1]]
            return [f"{pad}let {s[1]} := {s[2][0]}"] + self.block(rest, env2, ind, tail, brk)
        if s[0] == "break":
            if brk is None:
                raise Bad("break outside a loop")
            return [pad + brk]
        if s[0] == "return":
            if rest:
                raise Bad("statements after return")
            for e in s[1]:
                self.check(e, env, "return")
            return [pad + "(" + ", ".join(e[0] for e in s[1]) + ")"]
        if s[0] == "if":
            self.check(s[1], env, "if condition")
            if has([s], "return"):
                raise Bad("return inside if")
            if has([s], "break"):
                a = self.block(s[2] + rest, env, ind + 4, tail, brk)
                b = self.block(s[3] + rest, env, ind + 4, tail, brk)
                a[0] = a[0].lstrip()
                b[0] = b[0].lstrip()
                a[-1] += ")"
                b[-1] += ")"
                return [f"{pad}if {s[1][0]} then ({a[0]}"] + a[1:] + [f"{pad}  else ({b[0]}"] + b[1:]
            ws = [v for v in env if v in set(assigned([s]))]
            if not ws:
                raise Bad("if-statement that assigns no variable defined before it")
            fin = lambda _env: tup(ws)  # noqa: E731
            a = self.block(s[2], env, ind + 4, fin, brk)
            b = self.block(s[3], env, ind + 4, fin, brk)
            a[0] = a[0].lstrip()
            b[0] = b[0].lstrip()
            a[-1] += ")"
            b[-1] += ")"
            t = ws[0] if len(ws) == 1 else self.fresh()
            out = [f"{pad}let {t} := if {s[1][0]} then ({a[0]}"] + a[1:] + [f"{pad}  else ({b[0]}"] + b[1:]
            if len(ws) > 1:
                out += [f"{pad}let {w} := {proj(t, k, len(ws))}" for k, w in enumerate(ws)]
            return out + self.block(rest, env, ind, tail, brk)
        if s[0] == "while":
            self.check(s[1], env, "while condition")
            if has(s[2], "return"):
                raise Bad("return inside while")
            asg = set(assigned(s[2]))
            st = [v for v in env if v in asg]
            if not st:
                raise Bad("while loop that assigns no variable defined before it")
            rd = reads(s[2]) | s[1][1]
            ro = [v for v in env if v in rd and v not in asg]
            self.nl += 1
            lname = f"{self.fname}_loop{self.nl}"
            params = st + ro
            call = f"{lname} fuel " + " ".join(params)
            body = self.block(s[2], list(params), 6, lambda _env: call, tup(st) if len(st) > 1 else st[0])
            body[0] = body[0].lstrip()
            body[-1] += ")"
            sig = " → ".join(["Nat"] + ["Int"] * len(params)) + " → " + " × ".join(["Int"] * len(st))
            d = [f"def {lname} : {sig}",
                 f"  | 0, {', '.join(params)} => {tup(st)}",
                 f"  | fuel + 1, {', '.join(params)} =>",
                 f"    if {s[1][0]} then ({body[0]}"] + body[1:] + [f"    else {tup(st)}", ""]
            self.aux.append("\n".join(d))
            if len(st) == 1:
                out = [f"{pad}let {st[0]} := {call}"]
            else:
                t = self.fresh()
                out = [f"{pad}let {t} := {call}"] + [f"{pad}let {w} := {proj(t, k, len(st))}" for k, w in enumerate(st)]
            return out + self.block(rest, env, ind, tail, brk)
        raise Bad(f"statement kind {s[0]}")


def emit_function(px, params, stmts):
    """-> lean text (loop definitions, `<px>_local_time_fuel`, `<px>_local_time`)"""
    fname = f"{px}_local_time"
    names = set(assigned(stmts)) | set(params) | reads(stmts)
    em = Emitter(fname, names)
    if not stmts or stmts[-1][0] != "return":
        raise Bad("the function does not end in a tuple return")
    if len(stmts[-1][1]) != 6:
        raise Bad(f"the returned tuple has {len(stmts[-1][1]) + 1} components, expected 7")

    def off_end(_env):
        raise Bad("control falls off the end")
    body = em.block(stmts, list(params), 2, off_end, None)
    args = " ".join(params)
    ty = "Int × Int × Int × Int × Int × Int"
    out = list(em.aux)
    out.append(f"def {fname}_fuel (fuel : Nat) ({args} : Int) : {ty} :=\n" + "\n".join(body) + "\n")
    out.append(f"def {fname} ({args} : Int) : {ty} := {fname}_fuel {FUEL} {args}\n")
    return "\n".join(out)


def strip_passthrough(stmts, p3):
    """the microsecond parameter: returned unchanged as the last component, used nowhere else"""
    if not stmts or stmts[-1][0] != "return":
        raise Bad("the function does not end in a tuple return")
    ret = stmts[-1][1]
    if not ret or ret[-1][0] != vname(p3):
        raise Bad(f"the last returned component is not the parameter {p3}")
    body = stmts[:-1]
    if vname(p3) in reads(body) or vname(p3) in assigned(body) or any(vname(p3) in e[1] for e in ret[:-1]):
        raise Bad(f"the parameter {p3} is used other than being returned unchanged")
    return body + [("return", ret[:-1])]


# ----------------------------------------------------------------------------- Python front end

class Py:
    def __init__(self, consts, params):
        self.consts, self.params = consts, params
        self.locals = set(params)
        self.tables2 = set()

    def const_val(self, x):
        if isinstance(x, ast.Constant) and isinstance(x.value, int) and not isinstance(x.value, bool):
            return x.value
        if isinstance(x, ast.Name) and x.id not in self.locals and isinstance(self.consts.get(x.id), int) \
                and not isinstance(self.consts.get(x.id), bool):
            return self.consts[x.id]
        if isinstance(x, ast.BinOp) and isinstance(x.op, (ast.Mult, ast.Add, ast.Sub)):
            a, b = self.const_val(x.left), self.const_val(x.right)
            if a is not None and b is not None:
                return {ast.Mult: a * b, ast.Add: a + b, ast.Sub: a - b}[type(x.op)]
        return None

    def e(self, x):
        if isinstance(x, ast.Constant) and isinstance(x.value, int) and not isinstance(x.value, bool):
            return (L(x.value), frozenset())
        if isinstance(x, ast.Name):
            if x.id in self.locals:
                return (vname(x.id), frozenset([vname(x.id)]))
            v = self.consts.get(x.id)
            if isinstance(v, int) and not isinstance(v, bool):
                return (f"py_{x.id}", frozenset())
            raise Bad(f"unknown name {x.id}")
        if isinstance(x, ast.UnaryOp) and isinstance(x.op, ast.USub):
            a = self.e(x.operand)
            return (f"(-{a[0]})", a[1])
        if isinstance(x, ast.BinOp):
            ops = {ast.Add: "+", ast.Sub: "-", ast.Mult: "*", ast.FloorDiv: "/", ast.Mod: "%"}
            if type(x.op) not in ops:
                raise Bad("operator " + type(x.op).__name__)
            if isinstance(x.op, (ast.FloorDiv, ast.Mod)):
                cv = self.const_val(x.right)
                if cv is None or cv <= 0:
                    raise Bad("// or % by something that is not a positive constant: " + ast.unparse(x))
            a, b = self.e(x.left), self.e(x.right)
            return (f"({a[0]} {ops[type(x.op)]} {b[0]})", a[1] | b[1])
        if isinstance(x, ast.Subscript):
            v = x.value
            if isinstance(v, ast.Name) and v.id not in self.locals and self.is_table(self.consts.get(v.id)):
                i = self.e(x.slice)
                return (f"(py_{v.id} {i[0]})", i[1])
            if isinstance(v, ast.Subscript) and isinstance(v.value, ast.Name) and v.value.id not in self.locals \
                    and self.is_table2(self.consts.get(v.value.id)):
                i, j = self.e(v.slice), self.e(x.slice)
                self.tables2.add(v.value.id)
                return (f"(py_{v.value.id}_at {i[0]} {j[0]})", i[1] | j[1])
            raise Bad("subscript " + ast.unparse(x))
        if isinstance(x, ast.Call) and len(x.args) == 1 and not x.keywords:
            f = ast.unparse(x.func)
            if f in ("math.floor", "int"):
                inner = x.args[0]
                while isinstance(inner, ast.Call) and ast.unparse(inner.func) in ("math.floor", "int") and len(inner.args) == 1:
                    inner = inner.args[0]
                if isinstance(inner, ast.Name) and inner.id == self.params[0]:
                    return self.e(inner)          # trusted reading: the timestamp is an integer
                raise Bad(f"{f}() of something other than the timestamp parameter: " + ast.unparse(x))
        raise Bad("expression " + ast.unparse(x)[:80])

    @staticmethod
    def is_table(v):
        return isinstance(v, (tuple, list)) and v and all(isinstance(a, int) for a in v)

    @staticmethod
    def is_table2(v):
        return isinstance(v, (tuple, list)) and v and all(Py.is_table(r) for r in v)

    def b(self, x):
        if isinstance(x, ast.BoolOp):
            parts = [self.b(v) for v in x.values]
            op = " && " if isinstance(x.op, ast.And) else " || "
            rs = frozenset().union(*[p[1] for p in parts])
            return ("(" + op.join(p[0] for p in parts) + ")", rs)
        if isinstance(x, ast.UnaryOp) and isinstance(x.op, ast.Not):
            a = self.b(x.operand)
            return (f"(!{a[0]})", a[1])
        if isinstance(x, ast.Compare) and len(x.ops) == 1:
            o = {ast.Eq: "==", ast.NotEq: "!=", ast.Lt: "<", ast.LtE: "≤", ast.Gt: ">", ast.GtE: "≥"}.get(type(x.ops[0]))
            if o is None:
                raise Bad("comparison " + ast.unparse(x))
            a, c = self.e(x.left), self.e(x.comparators[0])
            if o in ("==", "!="):
                return (f"({a[0]} {o} {c[0]})", a[1] | c[1])
            return (f"(decide ({a[0]} {o} {c[0]}))", a[1] | c[1])
        raise Bad("condition " + ast.unparse(x)[:80])

    def define(self, name):
        self.locals.add(name)
        return vname(name)

    def stmts(self, body):
        out = []
        for s in body:
            if isinstance(s, ast.Expr) and isinstance(s.value, ast.Constant):
                continue
            if isinstance(s, ast.Pass):
                continue
            if isinstance(s, ast.AnnAssign) and isinstance(s.target, ast.Name) and s.value is not None:
                v = self.e(s.value)
                out.append(("assign", self.define(s.target.id), v))
            elif isinstance(s, ast.Assign) and len(s.targets) == 1 and isinstance(s.targets[0], ast.Name):
                v = self.e(s.value)
                out.append(("assign", self.define(s.targets[0].id), v))
            elif isinstance(s, ast.Assign) and len(s.targets) == 1 and isinstance(s.targets[0], ast.Tuple) \
                    and len(s.targets[0].elts) == 2 and all(isinstance(t, ast.Name) for t in s.targets[0].elts) \
                    and isinstance(s.value, ast.Call) and ast.unparse(s.value.func) == "divmod" and len(s.value.args) == 2:
                cv = self.const_val(s.value.args[1])
                if cv is None or cv <= 0:
                    raise Bad("divmod by something that is not a positive constant")
                a, c = self.e(s.value.args[0]), self.e(s.value.args[1])
                q, r = (t.id for t in s.targets[0].elts)
                if q == r:
                    raise Bad("divmod into the same name twice")
                qe = (f"({a[0]} / {c[0]})", a[1] | c[1])
                re_ = (f"({a[0]} % {c[0]})", a[1] | c[1])
                if vname(q) in re_[1]:
                    # the quotient's name is an operand: compute the remainder first under a temporary-free order
                    if vname(r) in qe[1]:
                        raise Bad("divmod whose two targets are both operands")
                    out.append(("assign", self.define(r), re_))
                    out.append(("assign", self.define(q), qe))
                else:
                    out.append(("assign", self.define(q), qe))
                    out.append(("assign", self.define(r), re_))
            elif isinstance(s, ast.AugAssign) and isinstance(s.target, ast.Name):
                fake = ast.BinOp(left=ast.Name(id=s.target.id, ctx=ast.Load()), op=s.op, right=s.value)
                v = self.e(fake)
                out.append(("assign", self.define(s.target.id), v))
            elif isinstance(s, ast.If):
                c = self.b(s.test)
                out.append(("if", c, self.stmts(s.body), self.stmts(s.orelse)))
            elif isinstance(s, ast.While):
                if s.orelse:
                    raise Bad("while/else")
                c = self.b(s.test)
                out.append(("while", c, self.stmts(s.body)))
            elif isinstance(s, ast.Break):
                out.append(("break",))
            elif isinstance(s, ast.Return) and isinstance(s.value, ast.Tuple):
                out.append(("return", [self.e(v) for v in s.value.elts]))
            else:
                raise Bad("statement outside the subset: " + ast.unparse(s)[:100])
        return out


def translate_py(consts):
    tree = ast.parse((REPO / "src/pendulum/_helpers.py").read_text())
    fns = [n for n in tree.body if isinstance(n, ast.FunctionDef) and n.name == "local_time"]
    if len(fns) != 1:
        raise Bad("local_time not found exactly once in _helpers.py")
    fn = fns[0]
    a = fn.args
    params = [x.arg for x in a.args]
    if len(params) != 3 or a.vararg or a.kwarg or a.kwonlyargs or a.defaults or fn.decorator_list:
        raise Bad("unexpected signature of local_time")
    py = Py(consts, params)
    st = strip_passthrough(py.stmts(fn.body), params[2])
    text = emit_function("py", [vname(p) for p in params[:2]], st)
    pre = []
    for n in sorted(py.tables2):
        rows = consts[n]
        arms = " ".join(f"| {k} => py_{n}_{k} j" for k in range(len(rows)))
        pre.append(f"def py_{n}_at (i j : Int) : Int := match i with {arms} | _ => 0\n")
    return "\n".join(pre + [text])


# ----------------------------------------------------------------------------- Rust front end

INT_TYPES = {"i8", "i16", "i32", "i64", "i128", "isize", "u8", "u16", "u32", "u64", "u128", "usize"}


class RsP(gen_rust.P):
    """gen_rust's expression parser + the statement level; records which locals an expression reads"""

    def __init__(self, toks, consts, params, float_param):
        super().__init__(toks, consts)
        self.locals = set(params)
        self.float_param = float_param
        self.rd = set()
        self.tables2 = set()
        self.depth = 0
        self.declared = set()

    # --- expressions
    def full(self, boolean=False):
        self.rd = set()
        e = self.expr()
        text = self.b(e) if boolean else self.n(e)
        return (text, frozenset(self.rd))

    def p_cast(self):
        e = self.p_post()
        while self.peek() == ("id", "as"):
            self.eat()
            ty = self.eat("id")[1]
            if ty not in INT_TYPES:
                raise gen_rust.Bad("cast to " + ty)
        return e

    def p_post(self):
        start = self.i
        e = self.p_atom()
        is_float = (self.i == start + 1 and self.t[start] == ("id", self.float_param))
        floored = False
        prev = None
        while self.peek() == ("op", "."):
            self.eat()
            m = self.eat("id")[1]
            self.eat("op", "(")
            self.eat("op", ")")
            if m == "floor" and is_float and not floored:
                floored = True                      # trusted reading: the timestamp is an integer
            elif m in ("into", "try_into") and not is_float:
                pass                                # trusted reading: integer conversion = identity
            elif m == "unwrap" and prev == "try_into":
                pass
            elif m == "unsigned_abs" and not is_float:
                e = (f"((Int.natAbs {self.n(e)} : Nat) : Int)", False)
            else:
                raise gen_rust.Bad("method ." + m + "()")
            prev = m
        if prev == "try_into":
            raise gen_rust.Bad(".try_into() without .unwrap()")
        if is_float:
            if not (floored and self.peek() == ("id", "as")):
                raise gen_rust.Bad(f"float parameter {self.float_param} used other than as `{self.float_param}.floor() as <int>`")
        return e

    def p_atom(self):
        tk = self.peek()
        if tk[0] == "id" and "::" not in tk[1]:
            name = tk[1]
            nxt = self.peek(1)
            if nxt == ("op", "("):
                raise gen_rust.Bad("call to " + name)
            if nxt == ("op", "["):
                v = self.consts.get(name)
                if name in self.locals or v is None:
                    raise gen_rust.Bad("index of unknown table " + name)
                if Py.is_table2(v):
                    self.eat()
                    self.eat("op", "[")
                    i = self.expr()
                    self.eat("op", "]")
                    self.eat("op", "[")
                    j = self.expr()
                    self.eat("op", "]")
                    self.tables2.add(name)
                    return (f"(rs_{name}_at {self.n(i)} {self.n(j)})", False)
                if not Py.is_table(v):
                    raise gen_rust.Bad("index of a non-table " + name)
                return super().p_atom()
            if name in self.locals:
                self.eat()
                self.rd.add(vname(name))
                return (vname(name), False)
            v = self.consts.get(name)
            if isinstance(v, int) and not isinstance(v, bool):
                return super().p_atom()
            raise gen_rust.Bad("unknown name " + name)
        if tk[0] == "id" and self.peek(1) != ("op", "("):
            raise gen_rust.Bad("path " + tk[1])
        return super().p_atom()

    # --- statements
    def define(self, name, is_let):
        if is_let and self.depth > 0 and name in self.locals:
            raise gen_rust.Bad(f"`let {name}` in a nested block shadows an outer variable")
        if not is_let and name not in self.locals and name not in self.declared:
            raise gen_rust.Bad(f"assignment to undeclared {name}")
        self.locals.add(name)
        return vname(name)

    def block_stmts(self):
        """statements up to (not including) the closing brace"""
        out = []
        while self.peek() != ("op", "}"):
            tk = self.peek()
            if tk[0] == "eof":
                raise gen_rust.Bad("unexpected end of function body")
            if out and out[-1][0] in ("return", "break"):
                raise gen_rust.Bad("statement after return/break")
            if tk == ("id", "let"):
                self.eat()
                if self.peek() == ("id", "mut"):
                    self.eat()
                name = self.eat("id")[1]
                if self.peek() == ("op", ":"):
                    self.eat()
                    ty = self.eat("id")[1]
                    if ty not in INT_TYPES:
                        raise gen_rust.Bad(f"local {name} of type {ty}")
                if self.peek() == ("op", ";"):
                    self.eat()
                    if self.depth > 0:
                        raise gen_rust.Bad("uninitialised let in a nested block")
                    self.declared = self.declared | {name}
                    continue
                self.eat("op", "=")
                e = self.full()
                self.eat("op", ";")
                out.append(("assign", self.define(name, True), e))
            elif tk == ("id", "if"):
                out.append(self.if_stmt())
            elif tk == ("id", "while"):
                self.eat()
                c = self.full(True)
                body = self.braced()
                out.append(("while", c, body))
            elif tk == ("id", "break"):
                self.eat()
                self.eat("op", ";")
                out.append(("break",))
            elif tk == ("op", "(") or tk == ("id", "return"):
                if self.depth != 0:
                    raise gen_rust.Bad("return / tail expression in a nested block")
                is_ret = tk[0] == "id"
                if is_ret:
                    self.eat()
                self.eat("op", "(")
                comps = []
                while True:
                    comps.append(self.full())
                    if self.peek() == ("op", ","):
                        self.eat()
                        if self.peek() == ("op", ")"):
                            break
                        continue
                    break
                self.eat("op", ")")
                if is_ret:
                    self.eat("op", ";")
                if self.peek() != ("op", "}"):
                    raise gen_rust.Bad("statements after the returned tuple")
                out.append(("return", comps))
            elif tk[0] == "id" and "::" not in tk[1]:
                name = self.eat()[1]
                o = self.eat("op")[1]
                if o == "=":
                    e = self.full()
                    self.eat("op", ";")
                    out.append(("assign", self.define(name, False), e))
                elif o in "+-*/%" and self.peek() == ("op", "="):
                    self.eat()
                    if name not in self.locals:
                        raise gen_rust.Bad(f"{name} {o}= before it has a value")
                    r = self.full()
                    self.eat("op", ";")
                    l = vname(name)
                    text = {"+": f"({l} + {r[0]})", "-": f"({l} - {r[0]})", "*": f"({l} * {r[0]})",
                            "/": f"(Int.tdiv {l} {r[0]})", "%": f"(Int.tmod {l} {r[0]})"}[o]
                    out.append(("assign", self.define(name, False), (text, r[1] | {l})))
                else:
                    raise gen_rust.Bad(f"statement form not supported near {name} {o}")
            else:
                raise gen_rust.Bad(f"statement form not supported near {tk}")
        return out

    def braced(self):
        self.eat("op", "{")
        self.depth += 1
        saved = set(self.locals)
        body = self.block_stmts()
        self.eat("op", "}")
        self.depth -= 1
        # names first bound inside the block do not escape it (Rust scoping); assignments to declared-uninitialised
        # outer variables are treated as block-local too (a later read is then a fallback)
        self.locals = saved
        return body

    def if_stmt(self):
        self.eat("id", "if")
        c = self.full(True)
        th = self.braced()
        el = []
        if self.peek() == ("id", "else"):
            self.eat()
            if self.peek() == ("id", "if"):
                el = [self.if_stmt()]
            else:
                el = self.braced()
        return ("if", c, th, el)


def translate_rs(consts):
    src = (REPO / "rust/src/helpers.rs").read_text()
    src_nc = re.sub(r"//[^\n]*", lambda m: " " * len(m.group(0)), src)
    ms = list(re.finditer(r"fn\s+local_time\s*\(([^)]*)\)\s*->\s*\(([^)]*)\)\s*\{", src_nc))
    if len(ms) != 1:
        raise Bad("local_time not found exactly once in helpers.rs (with a tuple return type)")
    m = ms[0]
    i, depth = m.end(), 1
    while depth and i < len(src_nc):
        depth += {"{": 1, "}": -1}.get(src_nc[i], 0)
        i += 1
    if depth:
        raise Bad("unbalanced braces in local_time")
    body = src_nc[m.end():i - 1]
    params = []
    for p in m.group(1).split(","):
        if p.strip():
            n, _, ty = p.partition(":")
            params.append((n.strip(), ty.strip()))
    if len(params) != 3:
        raise Bad("unexpected signature of local_time")
    rets = [t.strip() for t in m.group(2).split(",") if t.strip()]
    if len(rets) != 7 or any(t not in INT_TYPES for t in rets):
        raise Bad("unexpected return type of local_time")
    (p1, t1), (p2, t2), (p3, t3) = params
    if t1 not in ("f64", "f32") and t1 not in INT_TYPES:
        raise Bad(f"timestamp parameter of type {t1}")
    if t2 not in INT_TYPES or t3 not in INT_TYPES:
        raise Bad("offset / microsecond parameter is not an integer")
    try:
        toks = gen_rust.tokenize(body) + [("op", "}")]
        p = RsP(toks, consts, [p1, p2, p3], p1 if t1 in ("f64", "f32") else None)
        stmts = p.block_stmts()
        if p.i != len(toks) - 1:
            raise Bad("trailing tokens after the function body")
    except gen_rust.Bad as e:
        raise Bad(str(e)) from None
    st = strip_passthrough(stmts, p3)
    text = emit_function("rs", [vname(p1), vname(p2)], st).replace("Gen.rs_", "rs_")
    # gen_rust renders constants as `Gen.rs_X`; inside `namespace Pendulum.Gen` that is `rs_X`
    pre = []
    for n in sorted(p.tables2):
        rows = consts[n]
        arms = " ".join(f"| {k} => rs_{n}_{k} j" for k in range(len(rows)))
        pre.append(f"def rs_{n}_at (i j : Int) : Int := match i with {arms} | _ => 0\n")
    return "\n".join(pre + [text])


STUB = ("def {px}_local_time_fuel (fuel : Nat) (unix_time utc_offset : Int) : Int × Int × Int × Int × Int × Int :=\n"
        "  (0, 0, 0, 0, 0, 0)\n"
        "def {px}_local_time (unix_time utc_offset : Int) : Int × Int × Int × Int × Int × Int :=\n"
        "  {px}_local_time_fuel {fuel} unix_time utc_offset\n")

HEADER = """import Pendulum.Gen.Tables
/-! GENERATED by tools/gen_localtime.py from src/pendulum/_helpers.py (`local_time`) and rust/src/helpers.rs
(`local_time`) — do not edit. Statement-by-statement translation, one `<px>_local_time_loop<k>` per `while` loop.

Trusted reading (not translated):
* fixed-width integer types are unbounded `Int`; `e as <int type>`, `.into()`, `.try_into().unwrap()` are the identity;
* the timestamp parameter is an integer: `unix_time.floor() as i64` (Rust), `math.floor(unix_time)` (Python) are the identity;
* the microsecond parameter is returned unchanged as the 7th component and used nowhere else (checked syntactically);
  it is left out here;
* Python `//`, `%` occur only with divisors that are positive constants (checked): Lean `/`, `%`;
  Rust `/`, `%` are truncating: `Int.tdiv`, `Int.tmod`;
* `while` loops are cut after `fuel` iterations; `<px>_local_time` uses fuel = {fuel}
  (Proofs/LocalTimeGen.lean: the result is the same for every fuel >= 40);
* an out-of-range table index yields 0 (as in Gen/Tables.lean). -/
set_option linter.unusedVariables false
namespace Pendulum.Gen
"""


def generate(changed, fallbacks, _write):
    from tools.gen_lean import GEN, py_constants, rs_constants
    out = [HEADER.replace("{fuel}", str(FUEL))]
    for px, fn, consts_fn, where in (("py", translate_py, py_constants, "_helpers.py"),
                                     ("rs", translate_rs, rs_constants, "rust/src/helpers.rs")):
        try:
            out.append(fn(consts_fn()))
        except (Bad, OSError, SyntaxError, KeyError, IndexError) as e:
            fallbacks.append(f"LocalTime: cannot translate local_time of {where}: {e}")
            out.append(f"-- UNTRANSLATABLE {px} local_time: {str(e)[:300]}")
            out.append(STUB.format(px=px, fuel=FUEL))
    out += ["end Pendulum.Gen", ""]
    _write(GEN / "LocalTime.lean", "\n".join(out), changed)
    return 0
