#!/bin/sh
# usage: tools/run_all.sh [quick|thorough]  — every claimed check once, evidence validated against the schema
cd "$(dirname "$0")/.." || exit 2
tier=${1:-quick}
ids=$(/venv/bin/python -c "import json;print(' '.join(c['property_id'] for c in json.load(open('MANIFEST.json'))['checks']))")
rc=0
for p in $ids; do
  ./check "$p" --tier "$tier" > ".cache/run_$p.log" 2>&1; e=$?
  tail -n 1 ".cache/run_$p.log"
  grep -c '^KNOWN-FINDING' ".cache/run_$p.log" | sed "s/^/   known-finding lines: /"
  [ $e -ne 0 ] && { rc=1; grep '^VIOLATION\|INFRA' ".cache/run_$p.log"; }
done
python3-vt - <<'PY'
import json, jsonschema, glob
s = json.load(open('/root/.vp/EVIDENCE.schema.json'))
m = json.load(open('MANIFEST.json'))
jsonschema.validate(m, json.load(open('/root/.vp/MANIFEST.schema.json')))
bad = 0
for c in m['checks']:
    try:
        jsonschema.validate(json.load(open(c['evidence_file'])), s)
    except Exception as e:
        bad += 1; print('EVIDENCE INVALID', c['evidence_file'], str(e)[:200])
print('manifest valid; evidence files valid:', len(m['checks']) - bad, 'of', len(m['checks']))
PY
exit $rc
